import json
props = {
 "C01": ("exploration","SIM","model-based stateful property testing (proptest histories on a deterministic simulated runtime; obligation-set + drain oracle)"),
 "C02": ("exploration","SIM","bounded-exhaustive enumeration of operation sequences + proptest histories; reference-model / stats differential after every step"),
 "C03": ("exploration","SIM","model-based stateful property testing with concurrent consumers; earliest-possible-lease-end invariant over the history"),
 "C04": ("exploration","SIM+PURE","proptest histories with exact virtual-clock probes around each deadline (measured-instant window oracle) + exhaustive sweep of AckDeadline::new"),
 "C05": ("exploration","SIM","proptest histories mixing ModifyAckDeadline with exact deadline probes; window oracle on the new deadline, atomic-rejection via model/stats equality"),
 "C06": ("exploration","SIM","directed-random schedule generation (ticks, bursts, aborts, yield points); quiescent-point invariant backlog=0 while a consumer waits"),
 "C07": ("exploration","SIM","proptest request storms on a paused-clock runtime; oracle: no call pending after the clock advanced by an hour with nothing runnable"),
 "C08": ("exploration","SIM","proptest concurrent publishers/consumers; interval-order invariant on message ids and first deliveries"),
 "C09": ("exploration","SIM+PUSH","proptest payload/attribute generators read back on every delivery path; field-by-field round-trip oracle, global id uniqueness"),
 "C10": ("exploration","SIM","proptest concurrent control-plane histories; per-name linearizability search (WGL-style) against the sequential map specification"),
 "C11": ("exploration","SIM","proptest create/delete/re-create histories with yield points; listing = model invariant at quiescent points"),
 "C12": ("exploration","SIM","proptest deletion races over many scheduler seeds and yield points; terminal-status oracle at the first quiescent point after the delete"),
 "C13": ("exploration","SIM+PURE","proptest create/delete histories + page walks and hostile tokens; concatenated-walk = model list oracle, token robustness"),
 "C14": ("fault_enumeration","PUSH","fault-script enumeration against a scripted local HTTP endpoint; endpoint-log oracle"),
 "C15": ("exploration","SIM","proptest boundary limits and backlogs (around 1000 and the 16-bit wrap); size-bound and empty-only-when-allowed oracle"),
 "C16": ("fault_enumeration","SIM","crash-point enumeration (poll k times, drop) x mailbox saturation; metamorphic oracle: state in {completed, never sent} + attach probe"),
 "C17": ("exploration","SIM","structured malformed-field generators for every RPC; status / INVALID_ARGUMENT set / state-unchanged oracle with full state rendering + health probe"),
 "C18": ("exploration","PURE","bounded-exhaustive string enumeration + proptest pairs; reference-grammar, echo round-trip and injectivity oracle"),
 "C19": ("exploration","FLOW","bounded-exhaustive + proptest hand-polled interleavings with a counting model, plus barrier-started real-thread stress"),
}
texts = {
 "exploration": "Generated-input search (proptest; exhaustive enumeration where stated in the evidence) against an executable oracle derived from the property statement; a green run shows the absence of a counterexample among the explored cases, not a proof.",
 "fault_enumeration": "Systematic enumeration of the fault dimension named in the property (crash points / endpoint fault scripts) up to a stated bound plus generated variations, judged by an explicit oracle; absence of a counterexample within the enumerated bound.",
}
notes = {
 "SIM": "Trusted: the harness (deterministic single-thread tokio runtime with paused clock, in-process tonic transport, observation-driven model). Interleavings at await granularity plus cfg(deltio_verif) yield points; select! outcomes sampled via seeds; no preemptive multi-core interleavings.",
 "SIM+PURE": "As SIM; the pure part calls the public functions directly.",
 "SIM+PUSH": "As SIM for the pull paths; the push path uses the PUSH engine (real loopback sockets and clock).",
 "PUSH": "Real loopback TCP and real time: inputs are a function of the seed, timing is not; bounds are >=100x the push interval; an overrun without progress is reported inconclusive (exit 2), not as a violation.",
 "PURE": "Direct calls to TopicName/SubscriptionName::try_parse and Display; the reference grammar is part of the trusted base.",
 "FLOW": "Explorer polls are atomic; preemptive interleavings inside a poll are only sampled by the real-thread stress, which is not a pure function of the seed.",
}
import sys
claimed = sys.argv[1].split(",")
na = {"C14":"PUSH engine not built yet in this commit (planned next)"}
checks=[]
for pid in sorted(props):
    if pid not in claimed: continue
    lvl,eng,tech = props[pid]
    checks.append({
      "property_id": pid,
      "quick_cmd": f"bin/check {pid} quick",
      "thorough_cmd": f"bin/check {pid} thorough",
      "evidence_file": f"evidence/{pid}.json",
      "replay_cmd_template": "harness/target/debug/vcheck replay {path}",
      "engine": eng,
      "level_claimed": {"category": lvl, "text": texts[lvl], "design_ref": f"DESIGN.md section 4 ({pid})"},
      "level_note": notes[eng],
      "technique": tech,
    })
m = {
 "version": 1,
 "setup_cmd": "cd harness && CARGO_NET_OFFLINE=true cargo build --offline",
 "hooks": {
   "guard": "cfg(deltio_verif)",
   "enable": "RUSTFLAGS --cfg deltio_verif, set for the harness build in /verif/harness/.cargo/config.toml (together with --cfg tokio_unstable for the seeded runtime RNG)",
   "baseline_off_cmd": "cd /repo && cargo test --workspace --no-fail-fast --offline",
   "source_commits": ["51cbf47"],
   "add_only": True,
 },
 "engines": [
   {"name":"SIM","path":"harness/src/sim.rs, model.rs, model_driver.rs, gen.rs, props.rs","serves_properties":["C01","C02","C03","C04","C05","C06","C07","C08","C09","C10","C11","C12","C13","C15","C16","C17"],"kind_free_text":"deterministic simulation (tokio current_thread, paused clock, seeded select RNG, in-process tonic transport) + observation-driven reference model, driven by proptest"},
   {"name":"PURE","path":"harness/src/pure.rs","serves_properties":["C04","C13","C18"],"kind_free_text":"direct calls to public pure functions; exhaustive enumeration + proptest"},
   {"name":"FLOW","path":"harness/src/flow.rs","serves_properties":["C19"],"kind_free_text":"hand-polled interleaving explorer + real-thread stress"},
   {"name":"PUSH","path":"harness/src/push.rs","serves_properties":["C14","C09"],"kind_free_text":"scripted loopback HTTP endpoint, real clock"},
 ],
 "checks": checks,
 "not_applicable": [{"property_id":k,"reason":v} for k,v in na.items() if k not in claimed],
 "notes": "bin/check rebuilds the harness against /repo's working tree (cargo path dependency) before every run. Exit codes: 0 held, 1 violation (VIOLATION line + replay file), 2 inconclusive / infrastructure. VERIF_SEED seeds every generator. Known findings: known_findings.json.",
}
json.dump(m, open("MANIFEST.json","w"), indent=1)
