#![no_main]
//! Coverage-guided fuzz target over the simulation engine: the bytes are decoded into an
//! operation history (vcheck::fuzzdec), the history is run on a fresh in-process Deltio on
//! the deterministic runtime, and the recorded trace is judged by the reference model. Any
//! violation of any property that the model decides (and any panic or abort of the server
//! code) is a crash of the target; VERIF_FUZZ_PROPS (comma separated ids) restricts the
//! properties that count.
use libfuzzer_sys::fuzz_target;
use std::sync::OnceLock;

static PROPS: OnceLock<Option<Vec<String>>> = OnceLock::new();

fuzz_target!(|data: &[u8]| {
    static INIT: std::sync::Once = std::sync::Once::new();
    INIT.call_once(|| {
        vcheck::sim::init_epoch();
        // panics of server tasks are recorded for the model (rule `panic`) instead of ending the
        // process at once; a violation ends it explicitly below
        vcheck::sim::install_panic_hook();
        // a history on which the simulated server never becomes quiescent ends the process
        // (exit code 98); libFuzzer keeps the input as an artifact
        vcheck::sim::install_watchdog(20);
    });
    let props = PROPS.get_or_init(|| std::env::var("VERIF_FUZZ_PROPS").ok().map(|s| s.split(',').map(|x| x.trim().to_string()).collect()));
    let case = vcheck::fuzzdec::decode(data);
    let cfg = vcheck::sim::RunCfg { horizon: true, drain: true, qp_each_op: true };
    let tr = vcheck::sim::run_case(&case, &cfg);
    let rep = vcheck::model::analyze(&tr);
    for v in &rep.violations {
        let counts = match props {
            Some(ps) => v.props.iter().any(|p| ps.contains(p)),
            None => true,
        };
        if counts {
            eprintln!("MODEL-VIOLATION props={:?} rule={} :: {}", v.props, v.rule, v.detail);
            std::process::abort();
        }
    }
});
