//! C17: malformed requests. Structured generators replace one or more fields of otherwise
//! valid requests; the oracle checks the status, the INVALID_ARGUMENT set, that rejected
//! requests change nothing, and that the server keeps serving.
use crate::case::*;
use crate::model::{valid_ack_id, Report, Violation};
use crate::pure::ref_parse;
use crate::trace::*;
use proptest::collection::vec;
use proptest::prelude::*;

const S0: S = S { p: 0, i: 0 };
const S1: S = S { p: 0, i: 1 };
const S2: S = S { p: 0, i: 2 };
const T0: T = T { p: 0, i: 0 };
const T1: T = T { p: 0, i: 1 };

fn topic_names() -> BoxedStrategy<String> {
    let fixed: Vec<String> = vec![
        T0.name(),
        T1.name(),
        "projects/p0/topics/nope".into(),
        "".into(),
        "projects/".into(),
        "projects/p0".into(),
        "projects/p0/topics".into(),
        "projects/p0/topics/".into(),
        "projects/p0/subscriptions/sub0".into(),
        "projects/p0/topic/top0".into(),
        "projects/p0/topicz/top0".into(),
        "project/p0/topics/top0".into(),
        "projects//topics/top0".into(),
        "projects/p0//topics/top0".into(),
        "/projects/p0/topics/top0".into(),
        "projects/p0/topics/top0/".into(),
        "projects/p0/topics//top0".into(),
        "projects/p0/Topics/top0".into(),
        "projects/π/topics/τόπος".into(),
        "projects/p0/topics/a b".into(),
        "projects/p0/topics/top0\u{0}".into(),
        format!("projects/p0/topics/{}", "x".repeat(5000)),
        "////////////////////////".into(),
        "projects/p0/subscriptions".into(),
        "projects/aa/subscriptions".into(),
        "projects/p0/extra/topics/top0".into(),
        "projects/p0/subscriptions/sub0/topics/top0".into(),
        "projects/p0/topics/x/topics/top0".into(),
    ];
    prop_oneof![
        8 => (0..fixed.len()).prop_map(move |i| fixed[i].clone()),
        1 => "[ -~]{0,30}",
        1 => "\\PC{0,16}",
        1 => "projects/[a-z/]{0,12}/topics/[a-z/]{0,6}",
        1 => sliding_multibyte("projects/p0/topic/"),
    ]
    .boxed()
}

fn sub_names() -> BoxedStrategy<String> {
    let fixed: Vec<String> = vec![
        S0.name(),
        S1.name(),
        S2.name(),
        "projects/p0/subscriptions/nope".into(),
        "".into(),
        "projects/".into(),
        "projects/p0".into(),
        "projects/p0/subscriptions".into(),
        "projects/p0/subscriptions/".into(),
        "projects/p0/topics/top0".into(),
        "projects/p0/subscription/sub0".into(),
        "projects/p0/subscriptionz/sub0".into(),
        "project/p0/subscriptions/sub0".into(),
        "projects//subscriptions/sub0".into(),
        "projects/p0//subscriptions/sub0".into(),
        "projects/p0/subscriptions/sub0/".into(),
        "projects/p0/subscriptions//sub0".into(),
        "projects/é/subscriptions/ß".into(),
        format!("projects/p0/subscriptions/{}", "y".repeat(5000)),
        "projects/p0/topics/subscriptions/sub0".into(),
    ];
    prop_oneof![
        8 => (0..fixed.len()).prop_map(move |i| fixed[i].clone()),
        1 => "[ -~]{0,30}",
        1 => "\\PC{0,16}",
        1 => "projects/[a-z/]{0,12}/subscriptions/[a-z/]{0,6}",
        1 => sliding_multibyte("projects/p0/subscription/"),
    ]
    .boxed()
}

fn project_names() -> BoxedStrategy<String> {
    prop_oneof![
        3 => Just("projects/p0".to_string()),
        1 => Just("projects/".to_string()),
        1 => Just("projects".to_string()),
        1 => Just("".to_string()),
        1 => Just("project/p0".to_string()),
        1 => Just("projects/p0/".to_string()),
        1 => "[ -~]{0,12}",
        1 => sliding_multibyte("project/"),
    ]
    .boxed()
}

/// A malformed value of `prefix` + k filler bytes + one multi-byte character + a tail: over
/// the cases the character starts at every byte offset up to 300 (and around 512, 1024, 4096),
/// so that it straddles whatever byte boundary a handler may cut the value at.
fn sliding_multibyte(prefix: &'static str) -> BoxedStrategy<String> {
    let k = prop_oneof![8 => 0usize..300, 1 => 505usize..515, 1 => 1017usize..1027, 1 => 4089usize..4099];
    (k, prop_oneof![Just('é'), Just('€'), Just('😀')])
        .prop_map(move |(k, ch)| {
            let fill = k.saturating_sub(prefix.len());
            format!("{}{}{}{}", prefix, "a".repeat(fill), ch, "b".repeat(24))
        })
        .boxed()
}

fn ack_ids() -> BoxedStrategy<String> {
    let fixed: Vec<&'static str> = vec!["1", "2", "3", "999", "0", "18446744073709551615"];
    prop_oneof![
        6 => (0..fixed.len()).prop_map(move |i| fixed[i].to_string()),
        4 => (0..MALFORMED_ACK_IDS.len()).prop_map(|i| MALFORMED_ACK_IDS[i].to_string()),
        1 => "[ -~]{0,8}",
        1 => "\\PC{0,4}",
        1 => sliding_multibyte("x"),
    ]
    .boxed()
}

fn i32s() -> BoxedStrategy<i32> {
    prop_oneof![Just(i32::MIN), Just(-1), Just(0), Just(1), Just(9), Just(10), Just(600), Just(601), Just(65_535), Just(65_536), Just(i32::MAX), any::<i32>()].boxed()
}

fn tokens() -> BoxedStrategy<String> {
    prop_oneof![
        3 => Just(String::new()),
        2 => (0u64..5).prop_map(|n| Tok::Offset(n).render()),
        1 => Just(Tok::Offset(u64::MAX).render()),
        2 => vec(any::<u8>(), 0..12).prop_map(|b| Tok::Bytes(b).render()),
        2 => "[ -~]{0,14}",
        1 => "\\PC{0,6}",
    ]
    .boxed()
}

fn endpoints() -> BoxedStrategy<Option<PushReq>> {
    let eps: Vec<&'static str> = vec!["http://127.0.0.1:9/x", "https://example.invalid", "  http://127.0.0.1:9/y  ", "", "   ", "ftp://example.invalid", "htt", "mailto:x@example.invalid", "//example.invalid"];
    prop_oneof![
        3 => Just(None),
        6 => (0..eps.len()).prop_map(move |i| Some(PushReq { endpoint: eps[i].to_string(), attrs: vec![], oidc: None })),
        1 => "[ -~]{0,12}".prop_map(|e| Some(PushReq { endpoint: e, attrs: vec![("k".into(), "v".into())], oidc: Some(("a@b".into(), "aud".into())) })),
    ]
    .boxed()
}

fn raw_req() -> BoxedStrategy<Op> {
    let a = Just(false);
    prop_oneof![
        2 => (topic_names(), a).prop_map(|(name, a)| Op::Raw { req: Req::CreateTopic { name }, a }),
        2 => (topic_names(), a).prop_map(|(name, a)| Op::Raw { req: Req::DeleteTopic { name }, a }),
        2 => (topic_names(), a).prop_map(|(name, a)| Op::Raw { req: Req::GetTopic { name }, a }),
        4 => (sub_names(), topic_names(), i32s(), endpoints(), a).prop_map(|(name, topic, dl, push, a)| Op::Raw { req: Req::CreateSub { name, topic, dl, push }, a }),
        2 => (sub_names(), a).prop_map(|(name, a)| Op::Raw { req: Req::DeleteSub { name }, a }),
        2 => (sub_names(), a).prop_map(|(name, a)| Op::Raw { req: Req::GetSub { name }, a }),
        2 => (project_names(), i32s(), tokens(), a).prop_map(|(project, size, token, a)| Op::Raw { req: Req::ListTopics { project, size, token }, a }),
        2 => (project_names(), i32s(), tokens(), a).prop_map(|(project, size, token, a)| Op::Raw { req: Req::ListSubs { project, size, token }, a }),
        2 => (topic_names(), i32s(), tokens(), a).prop_map(|(topic, size, token, a)| Op::Raw { req: Req::ListTopicSubs { topic, size, token }, a }),
        3 => (topic_names(), 0u8..3, a).prop_map(|(topic, n, a)| Op::RawPublish { topic, n, a }),
        3 => (sub_names(), i32s(), a).prop_map(|(sub, max, a)| Op::Raw { req: Req::Pull { sub, max, ri: true }, a }),
        // a waiting pull on the subscription that holds a backlog, with limits around the 16-bit wrap
        1 => prop_oneof![Just(0i32), Just(65_536), Just(131_072), Just(-65_536), Just(i32::MIN), Just(1), Just(65_537)].prop_map(|max| Op::Raw { req: Req::Pull { sub: S0.name(), max, ri: false }, a: false }),
        4 => (sub_names(), vec(ack_ids(), 0..5), a).prop_map(|(sub, ack_ids, a)| Op::Raw { req: Req::Ack { sub, ack_ids }, a }),
        4 => (sub_names(), vec(ack_ids(), 0..5), i32s(), a).prop_map(|(sub, ack_ids, secs, a)| Op::Raw { req: Req::Modify { sub, ack_ids, secs }, a }),
        1 => (prop_oneof![Just(255usize), Just(256), Just(257), Just(300), Just(1000), Just(1001)], 0usize..3, ack_ids(), i32s(), any::<bool>()).prop_map(|(len, pos, bad, secs, is_ack)| {
            // a long id list with one real id first and one generated (possibly malformed) id somewhere
            let mut ids: Vec<String> = (0..len).map(|i| format!("{}", 5000 + i)).collect();
            ids[0] = "1".to_string();
            let p = match pos { 0 => 1, 1 => len / 2, _ => len - 1 };
            ids[p] = bad;
            if is_ack {
                Op::Raw { req: Req::Ack { sub: S0.name(), ack_ids: ids }, a: false }
            } else {
                Op::Raw { req: Req::Modify { sub: S0.name(), ack_ids: ids, secs }, a: false }
            }
        }),
        3 => (sub_names(), prop_oneof![Just(-1i64), Just(0), Just(1), Just(65_535), Just(65_536), Just(i64::MAX), Just(i64::MIN), any::<i64>()]).prop_map(|(sub, max_out)| Op::StreamOpenRaw { sub, max_out }),
        6 => (
            prop_oneof![4 => Just(String::new()), 1 => Just(S1.name()), 1 => "[ -~]{1,6}"],
            prop_oneof![4 => Just(0i64), 1 => Just(1i64), 1 => Just(i64::MAX)],
            prop_oneof![4 => Just(0i64), 1 => Just(1i64), 1 => Just(1i64 << 40)],
            vec(ack_ids(), 0..4),
            vec(ack_ids(), 0..4),
            vec(prop_oneof![Just(0i32), Just(10), Just(600), Just(-1), Just(i32::MIN), Just(i32::MAX)], 0..4),
            any::<bool>(),
        )
            .prop_map(|(subscription, max_out, max_bytes, acks, mod_ids, mut mod_secs, same_len)| {
                if same_len {
                    mod_secs.resize(mod_ids.len(), 10);
                }
                Op::StreamRaw { k: 0, subscription, max_out, max_bytes, acks, mod_ids, mod_secs }
            }),
    ]
    .boxed()
}

pub fn c17_strategy() -> BoxedStrategy<Case> {
    (any::<u64>(), vec(raw_req(), 1..5))
        .prop_map(|(sched_seed, raws)| {
            let mut ops = vec![
                Op::CreateTopic { t: T0, a: false },
                Op::CreateTopic { t: T1, a: false },
                Op::CreateSub { s: S0, t: T0, dl: 10, push: 0, a: false },
                Op::CreateSub { s: S1, t: T0, dl: 10, push: 0, a: false },
                Op::CreateSub { s: S2, t: T1, dl: 10, push: 0, a: false },
                Op::Publish { t: T0, n: 3, payload: Payload::plain(), a: false },
                Op::Pull { s: S0, max: 2, ri: true, a: false },
                Op::StreamOpen { s: S1, max_out: 10 },
                Op::Settle,
                Op::Snapshot,
            ];
            for r in raws {
                ops.push(r);
                ops.push(Op::Settle);
                ops.push(Op::Snapshot);
            }
            // health round trip on fresh names
            let t9 = T { p: 0, i: 9 };
            let s9 = S { p: 0, i: 9 };
            ops.push(Op::CreateTopic { t: t9, a: false });
            // (its ack deadline is one of the boundary values a client may legally send)
            let dl9 = [10, -1, i32::MIN, 0, i32::MAX, -600][(sched_seed % 6) as usize];
            ops.push(Op::CreateSub { s: s9, t: t9, dl: dl9, push: 0, a: false });
            ops.push(Op::Publish { t: t9, n: 1, payload: Payload::plain(), a: false });
            ops.push(Op::Pull { s: s9, max: 1, ri: true, a: false });
            ops.push(Op::Ack { s: s9, refs: vec![AckRef::Recent(0)], a: false });
            ops.push(Op::DeleteSub { s: s9, a: false });
            ops.push(Op::DeleteTopic { t: t9, a: false });
            Case { sched_seed, phase_us: 0, fanout_seed: 0, points: vec![], ops }
        })
        .boxed()
}

fn topic_ok(n: &str) -> bool {
    ref_parse(n, "topics").is_some()
}
fn sub_ok(n: &str) -> bool {
    ref_parse(n, "subscriptions").is_some()
}

fn token_undecodable(t: &str) -> bool {
    if t.is_empty() {
        return false;
    }
    // same reference decoder as C13
    const A: &[u8] = b"ABCDEFGHIJKLMNOPQRSTUVWXYZabcdefghijklmnopqrstuvwxyz0123456789+/";
    let b = t.as_bytes();
    if b.iter().any(|c| !A.contains(c) && *c != b'=') {
        return true;
    }
    let body = b.iter().filter(|c| **c != b'=').count();
    if b.iter().position(|c| *c == b'=').map(|p| p != body).unwrap_or(false) {
        return true;
    }
    body * 6 / 8 != 8
}

/// Does the statement (or the anchored parsers) define this request as malformed?
/// Returns Some(reason) when it must be answered INVALID_ARGUMENT.
pub fn must_reject(req: &Req) -> Option<String> {
    match req {
        Req::CreateTopic { name } | Req::DeleteTopic { name } | Req::GetTopic { name } => (!topic_ok(name)).then(|| "topic name outside the grammar".into()),
        Req::CreateSub { name, topic, push, .. } => {
            if !sub_ok(name) {
                return Some("subscription name outside the grammar".into());
            }
            if !topic_ok(topic) {
                return Some("topic name outside the grammar".into());
            }
            if let Some(p) = push {
                let e = p.endpoint.trim();
                if e.is_empty() || (!e.to_ascii_lowercase().starts_with("http")) {
                    return Some("unsupported push endpoint".into());
                }
            }
            None
        }
        Req::DeleteSub { name } | Req::GetSub { name } => (!sub_ok(name)).then(|| "subscription name outside the grammar".into()),
        Req::ListTopics { project, size, token } | Req::ListSubs { project, size, token } => {
            if !project.starts_with("projects/") {
                return Some("project name without projects/ prefix".into());
            }
            if *size < 0 {
                return Some("negative page size".into());
            }
            token_undecodable(token).then(|| "undecodable page token".into())
        }
        Req::ListTopicSubs { topic, size, token } => {
            if !topic_ok(topic) {
                return Some("topic name outside the grammar".into());
            }
            if *size < 0 {
                return Some("negative page size".into());
            }
            token_undecodable(token).then(|| "undecodable page token".into())
        }
        Req::Publish { topic, .. } => (!topic_ok(topic)).then(|| "topic name outside the grammar".into()),
        Req::Pull { sub, .. } => (!sub_ok(sub)).then(|| "subscription name outside the grammar".into()),
        Req::Ack { sub, ack_ids } => {
            if !sub_ok(sub) {
                return Some("subscription name outside the grammar".into());
            }
            ack_ids.iter().any(|a| !valid_ack_id(a)).then(|| "malformed ack id".into())
        }
        Req::Modify { sub, ack_ids, secs } => {
            if !sub_ok(sub) {
                return Some("subscription name outside the grammar".into());
            }
            if ack_ids.iter().any(|a| !valid_ack_id(a)) {
                return Some("malformed ack id".into());
            }
            (*secs < 0 && !ack_ids.is_empty()).then(|| "negative seconds".into())
        }
        Req::StreamOpen { sub, max_out } => {
            if !sub_ok(sub) {
                return Some("subscription name outside the grammar".into());
            }
            (!(0..=65_535i64).contains(max_out)).then(|| "max_outstanding_messages out of range".into())
        }
    }
}

/// Codes other than INVALID_ARGUMENT that may legitimately win when the request is also
/// malformed: NOT_FOUND when a *well-formed* name in the request denotes nothing.
fn may_be_not_found(req: &Req) -> bool {
    match req {
        Req::CreateSub { name, topic, .. } => sub_ok(name) && topic_ok(topic),
        Req::ListTopicSubs { topic, .. } => topic_ok(topic),
        Req::Ack { sub, .. } | Req::Modify { sub, .. } | Req::StreamOpen { sub, .. } => sub_ok(sub),
        _ => false,
    }
}

pub fn c17_extra(case: &Case, tr: &Trace, _rep: &Report) -> Vec<Violation> {
    let mut out = Vec::new();
    let mut push = |rule: &str, at: usize, detail: String| out.push(Violation { rule: rule.into(), props: vec!["C17".into()], at, detail });
    // snapshots in event order
    let snaps: Vec<(usize, &String)> = tr.events.iter().enumerate().filter_map(|(i, e)| if let EvKind::Snapshot { state } = &e.kind { Some((i, state)) } else { None }).collect();
    let snap_before = |idx: usize| snaps.iter().rev().find(|(i, _)| *i < idx).map(|x| x.1);
    let snap_after = |idx: usize| snaps.iter().find(|(i, _)| *i > idx).map(|x| x.1);
    for c in &tr.calls {
        let op = match case.ops.get(c.op) {
            Some(op) => op,
            None => continue,
        };
        let is_raw = matches!(op, Op::Raw { .. } | Op::RawPublish { .. } | Op::StreamOpenRaw { .. });
        if !is_raw {
            // health round trip (last seven ops) must succeed
            if c.op + 7 >= case.ops.len() && c.op < case.ops.len() {
                match &c.done {
                    Some((_, _, o)) if o.is_ok() => {}
                    other => push("health_probe_failed", c.invoke_idx, format!("after the malformed requests {:?} answered {:?}", c.req, other.as_ref().map(|d| &d.2))),
                }
            }
            continue;
        }
        let (ret_idx, outcome) = match &c.done {
            Some((ri, _, o)) => (*ri, o),
            None => {
                if c.aborted.is_none() || matches!(c.req, Req::StreamOpen { .. }) {
                    // streams that opened fine are aborted by the harness at the end
                    if !matches!(c.req, Req::StreamOpen { .. }) {
                        push("request_never_answered", c.invoke_idx, format!("{:?} was never answered", c.req));
                    }
                }
                continue;
            }
        };
        let code = outcome.code();
        if let Some(reason) = must_reject(&c.req) {
            let acceptable = code == 3 || (code == 5 && may_be_not_found(&c.req));
            if !acceptable {
                push("malformed_not_rejected", c.invoke_idx, format!("{:?} ({}) answered code {} instead of INVALID_ARGUMENT", short_req(&c.req), reason, code));
            }
        }
        if code != 0 {
            // only for a request that was answered before the next request was made: one that
            // waited (a blocking Pull released by a later DeleteSubscription) brackets other
            // requests' effects
            let answered_at_once = snaps.iter().find(|(i, _)| *i > c.invoke_idx).map(|x| x.0 > ret_idx).unwrap_or(true);
            if let (true, Some(b), Some(a)) = (answered_at_once, snap_before(c.invoke_idx), snap_after(ret_idx)) {
                if a != b {
                    push("rejected_request_changed_state", c.invoke_idx, format!("{:?} answered code {} but the observable state changed:\n--- before\n{}--- after\n{}", short_req(&c.req), code, clip(b), clip(a)));
                }
            }
        }
        // statuses a handler can legitimately produce
        if ![0, 3, 5, 6, 9, 12, 13].contains(&code) {
            push("unexpected_status", c.invoke_idx, format!("{:?} answered code {}", short_req(&c.req), code));
        }
    }
    // raw control messages: an invalid one must leave the state unchanged
    for (i, e) in tr.events.iter().enumerate() {
        if let EvKind::StreamSendRaw { call, subscription, max_out, max_bytes, acks, mod_ids, mod_secs } = &e.kind {
            let valid = subscription.is_empty()
                && *max_out == 0
                && *max_bytes == 0
                && mod_ids.len() == mod_secs.len()
                && acks.iter().all(|a| valid_ack_id(a))
                && mod_ids.iter().all(|a| valid_ack_id(a))
                && mod_secs.iter().all(|n| *n >= 0);
            if valid {
                continue;
            }
            // must end with INVALID_ARGUMENT before the next snapshot
            let next_snap = snaps.iter().find(|(j, _)| *j > i).map(|x| x.0).unwrap_or(usize::MAX);
            let end = tr.events.iter().enumerate().find(|(j, ev)| *j > i && matches!(&ev.kind, EvKind::StreamEnd { call: c2, .. } if c2 == call));
            match end {
                Some((j, ev)) if j < next_snap => {
                    if let EvKind::StreamEnd { code, .. } = &ev.kind {
                        if *code != Some(3) {
                            push("invalid_control_message_status", i, format!("an invalid StreamingPull control message ended the stream with {:?} instead of INVALID_ARGUMENT", code));
                        }
                    }
                }
                _ => {
                    let already_ended = tr.events[..i].iter().any(|ev| matches!(&ev.kind, EvKind::StreamEnd { call: c2, .. } if c2 == call));
                    if !already_ended {
                        push("invalid_control_message_ignored", i, "an invalid StreamingPull control message did not end the stream by the next quiescent point".to_string());
                    }
                }
            }
            if let (Some(b), Some(a)) = (snap_before(i), snap_after(i)) {
                if a != b {
                    push("rejected_request_changed_state", i, format!("an invalid StreamingPull control message (acks {:?}, modify ids {:?} seconds {:?}, subscription {:?}, limits {}/{}) changed the observable state:\n--- before\n{}--- after\n{}", acks, mod_ids, mod_secs, subscription, max_out, max_bytes, clip(b), clip(a)));
                }
            }
        }
    }
    out
}

fn clip(s: &str) -> String {
    let mut t: String = s.chars().take(1500).collect();
    if s.len() > 1500 {
        t.push('…');
    }
    t
}

fn short_req(r: &Req) -> String {
    let s = format!("{:?}", r);
    let mut t: String = s.chars().take(300).collect();
    if s.len() > 300 {
        t.push('…');
    }
    t
}

/// A rejected request that also carries a valid, effect-bearing element.
pub fn has_mixed_rejection(case: &Case) -> bool {
    case.ops.iter().any(|op| match op {
        Op::Raw { req, .. } => match req {
            Req::Ack { sub, ack_ids } | Req::Modify { sub, ack_ids, .. } => {
                must_reject(req).is_some() && sub_ok(sub) && ack_ids.iter().any(|a| valid_ack_id(a)) && ack_ids.len() >= 2
            }
            Req::CreateSub { name, topic, push, .. } => must_reject(req).is_some() && sub_ok(name) && topic_ok(topic) && push.is_some(),
            _ => false,
        },
        Op::StreamRaw { subscription, max_out, max_bytes, acks, mod_ids, mod_secs, .. } => {
            let valid = subscription.is_empty() && *max_out == 0 && *max_bytes == 0 && mod_ids.len() == mod_secs.len() && acks.iter().all(|a| valid_ack_id(a)) && mod_ids.iter().all(|a| valid_ack_id(a)) && mod_secs.iter().all(|n| *n >= 0);
            !valid && (acks.iter().any(|a| valid_ack_id(a)) || mod_ids.iter().any(|a| valid_ack_id(a)))
        }
        _ => false,
    })
}

pub fn c17_classes(case: &Case, _r: &Report) -> Vec<&'static str> {
    let mut v = Vec::new();
    for op in &case.ops {
        match op {
            Op::Raw { req, .. } => {
                if must_reject(req).is_some() {
                    v.push("raw_request_that_must_be_rejected");
                } else {
                    v.push("raw_request_must_answer_only");
                }
            }
            Op::StreamRaw { .. } => v.push("raw_stream_control_message"),
            Op::StreamOpenRaw { .. } => v.push("raw_stream_open"),
            Op::RawPublish { .. } => v.push("raw_publish"),
            _ => {}
        }
    }
    if has_mixed_rejection(case) {
        v.push("rejected_request_with_valid_elements");
    }
    v.sort();
    v.dedup();
    v
}


/// C18 at the RPC level: requests naming variants of existing resources.
pub fn c18_rpc_strategy() -> BoxedStrategy<Case> {
    let variant = |base: String| -> BoxedStrategy<String> {
        let b = base.clone();
        prop_oneof![
            2 => Just(base.clone()),
            2 => Just(format!("{}/", base)),
            1 => Just(format!("{}//", base)),
            1 => Just(format!("/{}", base)),
            1 => Just(base.replacen("projects/", "projects//", 1)),
            1 => Just(base.replacen("/topics/", "//topics/", 1).replacen("/subscriptions/", "//subscriptions/", 1)),
            1 => Just(base.replacen("/topics/", "/topics//", 1).replacen("/subscriptions/", "/subscriptions//", 1)),
            1 => Just(base.replacen("/topics/", "/x/topics/", 1).replacen("/subscriptions/", "/x/subscriptions/", 1)),
            // the collection segment itself replaced
            1 => Just(base.replacen("/topics/", "/subscriptionz/", 1).replacen("/subscriptions/", "/topics/", 1).replacen("/subscriptionz/", "/subscriptions/", 1)),
            1 => Just(base.replacen("/topics/", "/topicz/", 1).replacen("/subscriptions/", "/subscription/", 1)),
            1 => Just(base.replacen("/topics/", "/x/", 1).replacen("/subscriptions/", "/x/", 1)),
            1 => Just(base.replacen("/topics/", "//", 1).replacen("/subscriptions/", "//", 1)),
            1 => Just(base.to_uppercase()),
            1 => Just(format!("{} ", base)),
            1 => Just(format!("{}\u{0}", base)),
            1 => (0usize..40).prop_map(move |i| {
                let mut c: Vec<char> = b.chars().collect();
                let p = i % c.len();
                c.remove(p);
                c.into_iter().collect()
            }),
        ]
        .boxed()
    };
    // the same ids also exist in a second project
    let t0q = T { p: 1, i: 0 };
    let s0q = S { p: 1, i: 0 };
    let tn = prop_oneof![variant(T0.name()), variant(T1.name()), variant(t0q.name()), topic_names()];
    let sn = prop_oneof![variant(S0.name()), variant(S2.name()), variant(s0q.name()), sub_names()];
    let op = prop_oneof![
        3 => tn.clone().prop_map(|name| Op::Raw { req: Req::GetTopic { name }, a: false }),
        2 => tn.clone().prop_map(|name| Op::Raw { req: Req::CreateTopic { name }, a: false }),
        3 => sn.clone().prop_map(|name| Op::Raw { req: Req::GetSub { name }, a: false }),
        2 => (sn.clone(), tn.clone()).prop_map(|(name, topic)| Op::Raw { req: Req::CreateSub { name, topic, dl: 10, push: None }, a: false }),
        1 => sn.clone().prop_map(|sub| Op::Raw { req: Req::Pull { sub, max: 1, ri: true }, a: false }),
        1 => sn.clone().prop_map(|sub| Op::Raw { req: Req::Ack { sub, ack_ids: vec![] }, a: false }),
        1 => sn.clone().prop_map(|sub| Op::Raw { req: Req::Modify { sub, ack_ids: vec![], secs: 10 }, a: false }),
        1 => sn.clone().prop_map(|sub| Op::Raw { req: Req::Ack { sub, ack_ids: vec!["1".to_string()] }, a: false }),
        3 => tn.clone().prop_map(|topic| Op::RawPublish { topic, n: 1, a: false }),
        // a successful publish in between (whatever the handler remembers about the last topic)
        2 => prop_oneof![Just(T0), Just(T1)].prop_map(|t| Op::Publish { t, n: 1, payload: Payload::plain(), a: false }),
        // deletions: a name that differs in project (or spelling) from the deleted one keeps its resource
        2 => tn.clone().prop_map(|name| Op::Raw { req: Req::DeleteTopic { name }, a: false }),
        1 => sn.clone().prop_map(|name| Op::Raw { req: Req::DeleteSub { name }, a: false }),
    ];
    (any::<u64>(), vec(op, 1..8))
        .prop_map(|(sched_seed, raws)| {
            let mut ops = vec![
                Op::CreateTopic { t: T0, a: false },
                Op::CreateTopic { t: T1, a: false },
                Op::CreateSub { s: S0, t: T0, dl: 10, push: 0, a: false },
                Op::CreateSub { s: S2, t: T1, dl: 10, push: 0, a: false },
                Op::CreateTopic { t: T { p: 1, i: 0 }, a: false },
                Op::CreateSub { s: S { p: 1, i: 0 }, t: T { p: 1, i: 0 }, dl: 10, push: 0, a: false },
            ];
            ops.extend(raws);
            // read every resource back under its canonical name
            for t in [T0, T1, T { p: 1, i: 0 }] {
                ops.push(Op::GetTopic { t, a: false });
            }
            for s in [S0, S2, S { p: 1, i: 0 }] {
                ops.push(Op::GetSub { s, a: false });
            }
            Case { sched_seed, phase_us: 0, fanout_seed: 0, points: vec![], ops }
        })
        .boxed()
}
