//! Byte-level decoder for the coverage-guided fuzz target (`/verif/fuzz`): turns an
//! arbitrary byte string into a `Case` of the same operation language the proptest
//! generators use, so that every artifact of the fuzzer is an ordinary replayable case.
//!
//! The decoder is total (any input yields a case), uses small pools (2 topics, 3
//! subscriptions, one project) so that operations meet each other, and never reads an RNG:
//! the case is a pure function of the bytes.
use crate::case::*;

struct Cur<'a> {
    d: &'a [u8],
    p: usize,
}

impl<'a> Cur<'a> {
    fn u8(&mut self) -> Option<u8> {
        let b = *self.d.get(self.p)?;
        self.p += 1;
        Some(b)
    }
    /// a byte, or 0 when the input is exhausted (arguments of the last operation)
    fn z(&mut self) -> u8 {
        self.u8().unwrap_or(0)
    }
}

fn t_of(b: u8) -> T {
    T { p: 0, i: b % 2 }
}
fn s_of(b: u8) -> S {
    S { p: 0, i: b % 3 }
}

fn ack_ref(c: &mut Cur) -> AckRef {
    let b = c.z();
    let x = (b >> 3) as u16;
    match b & 7 {
        0 | 1 | 2 => AckRef::Recent(x.wrapping_mul(2114)),
        3 | 4 => AckRef::Own(x.wrapping_mul(2114)),
        5 => AckRef::Foreign(x.wrapping_mul(2114)),
        6 => AckRef::Unknown(x as u32),
        _ => AckRef::Malformed(x as u8),
    }
}

fn refs(c: &mut Cur) -> Vec<AckRef> {
    // 0..=3 references (an empty id list is a legal request)
    let n = (c.z() % 4) as usize;
    (0..n).map(|_| ack_ref(c)).collect()
}

const DLS: &[i32] = &[0, 10, 10, 12, 60, -1, 600];
const MAXES: &[i32] = &[1, 2, 3, 10, 1000, 0, 65_536, 1001];
const MAX_OUT: &[i32] = &[0, 1, 2, 10, 1000];
const SECS: &[i32] = &[0, 0, 1, 5, 10, 11, 30, 599, 600, 601, 65_536, 100_000, -1];
const ADV: &[u64] = &[1, 37, 64, 100, 1_000, 5_000, 9_950, 10_200, 12_300, 30_000, 301_000];
const DELTAS: &[i64] = &[-2_000, -1_000, -1, 101_500, 102_000, 150_000];
const SIZES: &[i32] = &[0, 1, 2, 3, 20, 1000, 1001, -1];

fn payload(b: u8) -> Payload {
    match b % 8 {
        0..=4 => Payload::plain(),
        5 => Payload { kind: 0, len: 0, attrs: 2, odd: false },
        6 => Payload { kind: 5, len: 0, attrs: 0, odd: false },
        _ => Payload { kind: 4, len: 5_000, attrs: 1, odd: false },
    }
}

fn simple_op(c: &mut Cur, code: u8) -> Op {
    let a = c.z();
    let asy = a & 0x80 != 0;
    match code % 10 {
        0 => Op::Pull { s: s_of(a), max: MAXES[(a as usize >> 2) % MAXES.len()], ri: a & 0x40 == 0, a: false },
        1 => Op::Publish { t: t_of(a), n: 1 + (a >> 2) % 3, payload: Payload::plain(), a: false },
        2 => Op::CreateSub { s: s_of(a), t: t_of(a >> 2), dl: 10, push: 0, a: false },
        3 => Op::DeleteSub { s: s_of(a), a: false },
        4 => Op::CreateTopic { t: t_of(a), a: false },
        5 => Op::DeleteTopic { t: t_of(a), a: false },
        6 => Op::Ack { s: s_of(a), refs: vec![AckRef::Recent(0)], a: false },
        7 => Op::Modify { s: s_of(a), refs: vec![AckRef::Recent(0)], secs: SECS[(a as usize >> 2) % SECS.len()], a: false },
        8 => Op::GetSub { s: s_of(a), a: false },
        _ => {
            let _ = asy;
            Op::StreamOpen { s: s_of(a), max_out: 10 }
        }
    }
}

/// Decodes `data` into a case. Layout: 4 header bytes (scheduler seed, rounding phase,
/// fan-out seed, number of schedule points), 3 bytes per schedule point, then operations
/// (1 opcode byte + argument bytes) until the input ends or 48 operations were read.
pub fn decode(data: &[u8]) -> Case {
    let mut c = Cur { d: data, p: 0 };
    let sched_seed = c.z() as u64;
    let phase_us = [0u32, 1, 37_000, 49_999, 50_000, 99_999][(c.z() % 6) as usize];
    let fanout_seed = c.z() as u64;
    let hdr = c.z();
    let npoints = (hdr % 4) as usize;
    let mut points = Vec::new();
    for _ in 0..npoints {
        let (p, n, y) = (c.z(), c.z(), c.z());
        let yields = if y & 0x80 != 0 { 255 } else { 1 + y % 5 };
        // stalls only where they are sound (see DESIGN.md 3.6)
        let point = p % POINT_NAMES.len() as u8;
        let stall_ok = matches!(point, 0 | 1 | 2 | 3 | 4 | 10 | 13 | 15);
        points.push(PointSpec { point, nth: n % 4, yields: if yields == 255 && !stall_ok { 3 } else { yields } });
    }
    let mut ops = Vec::new();
    if hdr & 0x80 == 0 {
        ops.push(Op::CreateTopic { t: t_of(0), a: false });
        ops.push(Op::CreateSub { s: s_of(0), t: t_of(0), dl: 10, push: 0, a: false });
    }
    while ops.len() < 50 {
        let code = match c.u8() {
            Some(b) => b,
            None => break,
        };
        let a = c.z();
        let asy = a & 0x80 != 0;
        let op = match code % 29 {
            0 => Op::CreateTopic { t: t_of(a), a: asy },
            1 => Op::DeleteTopic { t: t_of(a), a: asy },
            2 => Op::CreateSub { s: s_of(a), t: t_of(a >> 2), dl: DLS[(a as usize >> 3) % DLS.len()], push: 0, a: asy },
            3 => Op::DeleteSub { s: s_of(a), a: asy },
            4 | 5 => {
                let b = c.z();
                Op::Publish { t: t_of(a), n: 1 + (a >> 2) % 5, payload: payload(b), a: asy }
            }
            6 | 7 => Op::Pull { s: s_of(a), max: MAXES[(a as usize >> 2) % MAXES.len()], ri: a & 0x40 == 0, a: asy || a & 0x40 != 0 },
            8 => Op::PullAll { s: s_of(a) },
            9 => Op::Ack { s: s_of(a), refs: refs(&mut c), a: asy },
            10 => {
                let r = refs(&mut c);
                Op::Modify { s: s_of(a), refs: r, secs: SECS[(a as usize >> 2) % SECS.len()], a: asy }
            }
            11 => Op::StreamOpen { s: s_of(a), max_out: MAX_OUT[(a as usize >> 2) % MAX_OUT.len()] },
            12 => {
                let acks = if a & 4 != 0 { refs(&mut c) } else { vec![] };
                let mut mods: Vec<(AckRef, i32)> = if a & 8 != 0 { refs(&mut c).into_iter().map(|r| (r, SECS[(a as usize >> 4) % SECS.len()])).collect() } else { vec![] };
                if a & 0x40 != 0 {
                    mods.extend(acks.iter().map(|r| (r.clone(), 0)));
                }
                Op::StreamSend { k: a % 3, acks, mods }
            }
            13 => Op::StreamCloseSend { k: a % 3 },
            14 => Op::StreamDrop { k: a % 3 },
            15 => Op::Tick { n: 1 + a % 6 },
            16 => Op::Settle,
            17 => Op::Advance { ms: ADV[a as usize % ADV.len()] },
            18 => Op::GoTo { s: s_of(a), d: ((a >> 2) as u16 % 4).wrapping_mul(16_384), delta_us: DELTAS[(a as usize >> 4) % DELTAS.len()] },
            19 => Op::Abort { c: a % 4 },
            20 => Op::Burst { kind: (a >> 2) % 9, s: s_of(a), t: t_of(a), n: 17 + (a >> 5) * 3 },
            21 => {
                let inner = simple_op(&mut c, a);
                Op::PollDrop { op: Box::new(inner), k: (a >> 4) % 6, settle_between: a & 0x80 != 0 }
            }
            22 => Op::CheckLists,
            23 => Op::ReleaseStalls,
            24 => {
                if a & 4 != 0 {
                    Op::GetSub { s: s_of(a), a: asy }
                } else {
                    Op::GetTopic { t: t_of(a), a: asy }
                }
            }
            25 => Op::Walk { kind: a % 3, p: 0, t: t_of(a >> 2), size: SIZES[(a as usize >> 3) % SIZES.len()] },
            26 => Op::GoToActual { s: s_of(a), back: (a >> 2) % 3, delta_us: [500i64, 1_000, 1_500, -500][(a as usize >> 4) % 4] },
            27 => Op::ListTok { kind: a % 3, p: 0, t: t_of(a >> 2), size: SIZES[(a as usize >> 3) % SIZES.len()], tok: Tok::Offset([0u64, 1, 2, 3, 50, u64::MAX][(a as usize >> 5) % 6]) },
            _ => Op::Publish { t: t_of(a), n: 0, payload: Payload::plain(), a: asy },
        };
        ops.push(op);
    }
    Case { sched_seed, phase_us, fanout_seed, points, ops }
}
