use vcheck::runner::Tier;
use vcheck::sup;

fn main() {
    let args: Vec<String> = std::env::args().skip(1).collect();
    let code = match args.first().map(|s| s.as_str()) {
        Some("run") if args.len() >= 3 => {
            let tier = if args[2] == "thorough" { Tier::Thorough } else { Tier::Quick };
            sup::run_check(&args[1], tier)
        }
        Some("worker") if args.len() >= 7 => sup::run_worker_process(&args[1..]),
        Some("replay") if args.len() >= 2 => sup::replay(&args[1]),
        Some("exec-input") if args.len() >= 3 => {
            // run one input, print its violations; dying here is the signal the caller looks for
            vcheck::sim::init_epoch();
            vcheck::sim::install_panic_hook();
            vcheck::sim::install_watchdog(std::env::var("VERIF_CASE_LIMIT_S").ok().and_then(|s| s.parse().ok()).unwrap_or(60));
            let input = vcheck::runner::read_json(std::path::Path::new(&args[2])).expect("input");
            let input = if input.get("input").is_some() { input.get("input").cloned().unwrap() } else { input };
            match vcheck::props::replay_input(&args[1], &input) {
                Ok(vs) => {
                    for v in vs {
                        println!("{:?} {} :: {}", v.props, v.rule, v.detail);
                    }
                    0
                }
                Err(e) => {
                    eprintln!("{}", e);
                    2
                }
            }
        }
        Some("fuzz") if args.len() >= 3 => {
            // the coverage-guided stage on its own: fuzz <ID> <seconds>
            vcheck::sim::init_epoch();
            vcheck::sim::install_panic_hook();
            let dir = vcheck::sup::work_dir(&args[1]);
            let seed = std::env::var("VERIF_SEED").ok().and_then(|s| s.parse().ok()).unwrap_or(0);
            let fo = vcheck::sup::fuzz_stage(&args[1], seed, args[2].parse().unwrap_or(60), &dir);
            println!("{}", serde_json::to_string_pretty(&fo.summary).unwrap());
            for o in &fo.other {
                println!("other: {}", o);
            }
            let _ = std::fs::remove_dir_all(&dir);
            match fo.failure {
                Some(f) => {
                    let p = vcheck::runner::write_replay(&args[1], &f);
                    println!("VIOLATION property={} replay={}\n  rule: {}\n  {}", args[1], p.display(), f.rule, f.detail);
                    1
                }
                None => 0,
            }
        }
        Some("mt-delete") if args.len() >= 3 => {
            // experiment: mt-delete <seed> <rounds>
            let (n, why) = vcheck::push::run_mt_delete_storm(args[1].parse().unwrap_or(1), args[2].parse().unwrap_or(300), 6);
            println!("streams={} stuck={:?}", n, why);
            0
        }
        Some("fuzz-decode") if args.len() >= 3 => {
            // turn a libFuzzer artifact into a replay file for property args[1]
            let bytes = std::fs::read(&args[2]).expect("artifact");
            let case = vcheck::fuzzdec::decode(&bytes);
            let v = vcheck::sup::fuzz_input_json(&case);
            println!("{}", serde_json::to_string_pretty(&serde_json::json!({"property": args[1], "engine": "sim", "rule": "(decoded fuzz artifact)", "detail": "", "input": v, "trace": null})).unwrap());
            0
        }
        Some("bench") if args.len() >= 3 => {
            vcheck::sim::init_epoch();
            vcheck::sim::install_panic_hook();
            let n: u64 = args[2].parse().unwrap();
            let st = vcheck::props::strategy_for(&args[1]);
            let cfg = vcheck::sim::RunCfg::default();
            let (mut t_run, mut t_an, mut evs) = (0f64, 0f64, 0usize);
            for i in 0..n {
                let case = vcheck::runner::generate_one(&st, i);
                let t0 = std::time::Instant::now();
                let tr = vcheck::sim::run_case(&case, &cfg);
                t_run += t0.elapsed().as_secs_f64();
                let t1 = std::time::Instant::now();
                let _ = vcheck::model::analyze(&tr);
                t_an += t1.elapsed().as_secs_f64();
                evs += tr.events.len();
            }
            println!("run {:.1} ms/case, analyze {:.1} ms/case, {} events/case", t_run * 1000.0 / n as f64, t_an * 1000.0 / n as f64, evs / n as usize);
            0
        }
        Some("show") if args.len() >= 2 => {
            vcheck::sim::init_epoch();
            vcheck::sim::install_panic_hook();
            let input = vcheck::runner::read_json(std::path::Path::new(&args[1])).expect("input");
            let input = if input.get("input").is_some() { input.get("input").cloned().unwrap() } else { input };
            let (case, cfg): (vcheck::case::Case, vcheck::sim::RunCfg) = if input.get("engine").and_then(|e| e.as_str()) == Some("c16") {
                // the run in which the victim request is abandoned
                let c: vcheck::c16::C16Case = serde_json::from_value(input.get("case").cloned().expect("case")).expect("c16 case");
                (vcheck::c16::build(&c, vcheck::c16::Mode::Abandon).0, vcheck::sim::RunCfg { horizon: false, drain: false, qp_each_op: false })
            } else {
                (serde_json::from_value(input.get("case").cloned().expect("case")).expect("case"), vcheck::runner::cfg_from_json(input.get("cfg").unwrap_or(&serde_json::Value::Null)))
            };
            let tr = vcheck::sim::run_case(&case, &cfg);
            let rep = vcheck::model::analyze(&tr);
            println!("{}", serde_json::to_string_pretty(&vcheck::runner::trace_json(&tr)).unwrap());
            for v in &rep.violations {
                println!("{:?} {} :: {}", v.props, v.rule, v.detail);
            }
            println!("{:?}", rep.feat);
            0
        }
        _ => {
            eprintln!("usage: vcheck run <ID> <quick|thorough> | replay <file> | show <file>");
            2
        }
    };
    std::process::exit(code);
}
