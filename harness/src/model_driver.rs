// included into model.rs

struct WalkAcc {
    kind: u8,
    target: String,
    size: i32,
    first_invoke: usize,
    pages: Vec<Vec<String>>,
    tokens: Vec<String>,
}

/// strict RFC 4648 decoder; Ok(bytes) | Err(true) = certainly undecodable | Err(false) = borderline
fn ref_b64(s: &str) -> Result<Vec<u8>, bool> {
    const A: &[u8] = b"ABCDEFGHIJKLMNOPQRSTUVWXYZabcdefghijklmnopqrstuvwxyz0123456789+/";
    let b = s.as_bytes();
    if b.iter().any(|c| !A.contains(c) && *c != b'=') {
        return Err(true);
    }
    let body: Vec<u8> = b.iter().cloned().filter(|c| *c != b'=').collect();
    let pad = b.len() - body.len();
    if b.iter().position(|c| *c == b'=').map(|p| p != body.len()).unwrap_or(false) {
        return Err(true); // padding inside
    }
    if body.len() % 4 == 1 {
        return Err(true);
    }
    let mut bits: u32 = 0;
    let mut nbits = 0;
    let mut out = Vec::new();
    for c in &body {
        let v = A.iter().position(|a| a == c).unwrap() as u32;
        bits = (bits << 6) | v;
        nbits += 6;
        if nbits >= 8 {
            nbits -= 8;
            out.push((bits >> nbits) as u8);
            bits &= (1 << nbits) - 1;
        }
    }
    let canonical = bits == 0 && (body.len() + pad) % 4 == 0 && pad <= 2 && b.len() % 4 == 0;
    if out.len() != 8 {
        // whatever the padding rules, this cannot be an 8-byte token
        return Err(true);
    }
    if canonical {
        Ok(out)
    } else {
        Err(false)
    }
}

fn eff_page(size: i32) -> usize {
    if size == 0 {
        20
    } else if size > 1000 {
        1000
    } else {
        size as usize
    }
}

impl<'a> Model<'a> {
    fn expected_list(&self, kind: u8, target: &str, since_idx: usize) -> Option<Vec<String>> {
        self.expected_spans(kind, target, since_idx).map(|v| v.into_iter().map(|x| x.2).collect())
    }

    /// (create invoke idx, create return idx, name), sorted by return idx
    fn expected_spans(&self, kind: u8, target: &str, since_idx: usize) -> Option<Vec<(usize, usize, String)>> {
        if self.last_mutation_idx >= since_idx {
            return None;
        }
        match kind {
            0 => {
                let prefix = format!("{}/topics/", target);
                let mut v: Vec<(usize, usize, String)> = Vec::new();
                for (name, n) in self.tnames.iter() {
                    if !name.starts_with(&prefix) {
                        continue;
                    }
                    if n.flux != 0 || n.unknown {
                        return None;
                    }
                    if let Some(i) = n.inst {
                        v.push((self.topics[i].ci, self.topics[i].cr, name.clone()));
                    }
                }
                v.sort_by_key(|x| x.1);
                Some(v)
            }
            1 => {
                let prefix = format!("{}/subscriptions/", target);
                let mut v: Vec<(usize, usize, String)> = Vec::new();
                for (name, n) in self.snames.iter() {
                    if !name.starts_with(&prefix) {
                        continue;
                    }
                    if n.flux != 0 || n.unknown {
                        return None;
                    }
                    if let Some(i) = n.inst {
                        v.push((self.subs[i].ci, self.subs[i].cr, name.clone()));
                    }
                }
                v.sort_by_key(|x| x.1);
                Some(v)
            }
            _ => {
                let tn = self.tnames.get(target)?;
                if tn.flux != 0 || tn.unknown {
                    return None;
                }
                let ti = tn.inst?;
                let mut v: Vec<(usize, usize, String)> = Vec::new();
                for s in self.subs.iter() {
                    if s.topic_name != target {
                        continue;
                    }
                    let sn = self.snames.get(&s.name)?;
                    if sn.flux != 0 || sn.unknown {
                        return None;
                    }
                    if s.del_r.is_some() {
                        continue;
                    }
                    if s.del_i.is_some() {
                        return None;
                    }
                    match s.topic_inst {
                        None => return None,
                        Some(t) if t == ti => v.push((s.ci, s.cr, s.name.clone())),
                        _ => {}
                    }
                }
                for (name, n) in self.snames.iter() {
                    if (n.unknown || n.flux != 0)
                        && self.tr.calls.iter().any(|c| matches!(&c.req, Req::CreateSub { name: sn, topic: t, .. } if sn == name && t == target))
                    {
                        return None;
                    }
                }
                v.sort_by_key(|x| x.1);
                Some(v)
            }
        }
    }

    fn on_list_return(&mut self, call: CallId) {
        let c = self.tr.calls[call].clone();
        let (_, _, out) = c.done.clone().unwrap();
        let (kind, target, size, token) = match &c.req {
            Req::ListTopics { project, size, token } => (0u8, project.clone(), *size, token.clone()),
            Req::ListSubs { project, size, token } => (1u8, project.clone(), *size, token.clone()),
            Req::ListTopicSubs { topic, size, token } => (2u8, topic.clone(), *size, token.clone()),
            _ => return,
        };
        let code = out.code();
        if size < 0 {
            if code != 3 {
                // a missing topic may legitimately win over the page size
                if !(kind == 2 && code == 5) {
                    self.v("negative_page_size_accepted", &["C13", "C17"], format!("list call with page_size={} answered code {}", size, code));
                }
            }
            return;
        }
        let (names, next): (Vec<String>, String) = match &out {
            Outcome::TopicList { names, next } => (names.clone(), next.clone()),
            Outcome::SubList { subs, next } => (subs.iter().map(|s| s.name.clone()).collect(), next.clone()),
            Outcome::NameList { names, next } => (names.clone(), next.clone()),
            _ => (vec![], String::new()),
        };
        if code == 0 && names.len() > eff_page(size) {
            self.v("page_over_size", &["C13"], format!("page of {} entries for page_size={} (effective {})", names.len(), size, eff_page(size)));
        }
        let in_walk = self.walks.contains_key(&c.op);
        if token.is_empty() || in_walk {
            // part of a walk from the first page
            if code != 0 {
                if code != 5 && code != 3 {
                    self.v("list_unexpected_status", &["C13", "C17"], format!("list call answered code {}", code));
                }
                if in_walk && !token.is_empty() && self.last_mutation_idx < c.invoke_idx.min(self.walks[&c.op].first_invoke) {
                    self.v("issued_token_rejected", &["C13"], format!("the page token {:?} issued by the previous page of this walk was answered with code {}", token, code));
                }
                self.walks.remove(&c.op);
                return;
            }
            let w = self.walks.entry(c.op).or_insert(WalkAcc { kind, target: target.clone(), size, first_invoke: c.invoke_idx, pages: vec![], tokens: vec![] });
            w.pages.push(names.clone());
            w.tokens.push(next.clone());
            if next.is_empty() {
                let w = self.walks.remove(&c.op).unwrap();
                self.finish_walk(w);
            }
            return;
        }
        // a free-standing call with a token the walk did not issue: hostile token
        self.rep.feat.hostile_tokens += 1;
        let decoded = ref_b64(&token);
        match decoded {
            Err(true) => {
                if code != 3 && !(kind == 2 && code == 5) {
                    self.v("undecodable_token_accepted", &["C13", "C17"], format!("page token {:?} cannot be decoded but the call answered code {}", token, code));
                }
            }
            Err(false) => {
                if code != 3 && code != 0 && !(kind == 2 && code == 5) {
                    self.v("token_unexpected_status", &["C13", "C17"], format!("page token {:?} answered code {}", token, code));
                }
            }
            Ok(bytes) => {
                if !self.token_format_ok {
                    return;
                }
                let off = u64::from_le_bytes(bytes.try_into().unwrap());
                if code != 0 {
                    if !(kind == 2 && code == 5) {
                        self.v("decodable_token_rejected", &["C13"], format!("decodable page token (offset {}) answered code {}", off, code));
                    }
                    return;
                }
                if let Some(spans) = self.expected_spans(kind, &target, c.invoke_idx) {
                    let exp: Vec<String> = spans.iter().map(|x| x.2.clone()).collect();
                    let start = (off as usize).min(exp.len());
                    let end = (start + eff_page(size)).min(exp.len());
                    let want: Vec<String> = if off as u128 > exp.len() as u128 { vec![] } else { exp[start..end].to_vec() };
                    // creations that overlapped have no determined order in the listing: then only
                    // the size of the page and its membership are checked
                    let overlapping = spans.iter().enumerate().any(|(i, a)| spans.iter().skip(i + 1).any(|b| !(a.1 < b.0 || b.1 < a.0)));
                    if overlapping {
                        let mut uniq: Vec<&String> = names.iter().collect();
                        uniq.sort();
                        uniq.dedup();
                        if names.len() != want.len() || uniq.len() != names.len() || names.iter().any(|n| !exp.contains(n)) {
                            self.v("token_page_wrong", &["C13"], format!("token with offset {} and page_size {} over a list of {} returned {:?} (a page of {} distinct existing names was expected)", off, size, exp.len(), names, want.len()));
                        }
                    } else if names != want {
                        self.v("token_page_wrong", &["C13"], format!("token with offset {} and page_size {} over a list of {} returned {:?}, expected {:?}", off, size, exp.len(), names, want));
                    }
                }
            }
        }
    }

    fn finish_walk(&mut self, w: WalkAcc) {
        let all: Vec<String> = w.pages.iter().flatten().cloned().collect();
        // issued tokens: observed format = base64(8 bytes LE offset)
        let mut consumed = 0usize;
        for (p, t) in w.pages.iter().zip(w.tokens.iter()) {
            consumed += p.len();
            if !t.is_empty() {
                match ref_b64(t) {
                    Ok(b) if u64::from_le_bytes(b.clone().try_into().unwrap()) == consumed as u64 => {}
                    _ => self.token_format_ok = false,
                }
            }
        }
        if let Some(spans) = self.expected_spans(w.kind, &w.target, w.first_invoke) {
            let exp: Vec<String> = spans.iter().map(|x| x.2.clone()).collect();
            if !same_order_modulo_overlap(&spans, &all) {
                // a resource whose creation had returned and that no page shows is also a
                // violation of the name map's "every later request observes it" (C10)
                let missing = exp.iter().any(|e| !all.contains(e));
                self.v(
                    "walk_mismatch",
                    match (w.kind == 2, missing) {
                        (true, true) => &["C13", "C11", "C10"],
                        (true, false) => &["C13", "C11"],
                        (false, true) => &["C13", "C10"],
                        (false, false) => &["C13"],
                    },
                    format!("walking list kind {} of {} with page_size {} yielded {:?}, expected {:?}", w.kind, w.target, w.size, all, exp),
                );
            }
            if w.pages.len() > exp.len() + 2 {
                self.v("walk_too_long", &["C13"], format!("walk needed {} calls for {} entries", w.pages.len(), exp.len()));
            }
            let deletions = self.topics.iter().any(|t| t.del_r.is_some()) || self.subs.iter().any(|s| s.del_r.is_some());
            if w.pages.len() >= 2 && deletions {
                self.rep.feat.walks_multi_page_after_delete += 1;
            }
        }
    }

    fn on_stream_msg(&mut self, call: CallId, recvs: &[Recv]) {
        let (sub, max_out, lo_idx) = match self.streams.get(&call) {
            Some(s) => (s.sub.clone(), s.max_out, s.last_msg_idx),
            None => return,
        };
        if max_out > 0 && recvs.len() > max_out as usize {
            self.v("stream_response_over_limit", &["C15"], format!("StreamingPull(max_outstanding_messages={}) response on {} carries {} messages", max_out, sub, recvs.len()));
        }
        self.deliveries(&sub, recvs, lo_idx, true, call);
        if self.streams.get(&call).map(|s| s.sub_inst.is_none()).unwrap_or(false) {
            if let Some(i) = self.cur_sub(&sub) {
                self.streams.get_mut(&call).unwrap().sub_inst = Some(i);
                self.subs[i].consumers.insert(call);
            }
        }
        let idx = self.idx;
        if let Some(s) = self.streams.get_mut(&call) {
            s.last_msg_idx = idx;
        }
    }

    fn on_stream_end(&mut self, call: CallId, code: Option<i32>) {
        let idx = self.idx;
        let (si, ctrl, invalid, sub) = match self.streams.get_mut(&call) {
            Some(s) => {
                s.ended = Some(code);
                s.open = false;
                (s.sub_inst, s.ctrl_since_qp, s.invalid_ctrl_sent, s.sub.clone())
            }
            None => return,
        };
        self.release_call(call);
        if let Some(si) = si {
            let deleted = self.subs[si].del_i.map(|d| d < idx).unwrap_or(false);
            if !deleted {
                // the stream ended (rejected control message, ...) while its subscription lives
                // on: messages that became available in the same instant may have been handed
                // to it without ever reaching the client - like a consumer that went away
                let now = self.now;
                let d = self.subs[si].d;
                let s = &mut self.subs[si];
                s.tainted_until = s.tainted_until.max(now + d * SEC + SLACK + 1_000_000);
                s.ever_tainted = true;
                s.consumer_abort_since_qp = true;
                for (_, st) in s.msgs.iter_mut() {
                    if matches!(st, Ms::Queued { .. }) {
                        *st = Ms::MaybeLeased;
                    }
                }
            }
            if deleted {
                if code != Some(5) && !(ctrl && matches!(code, Some(c) if c != 0)) && !(invalid && code == Some(3)) {
                    self.v(
                        "stream_end_status_after_delete",
                        &["C12"],
                        format!("StreamingPull on deleted {} ended with {:?} instead of NOT_FOUND", sub, code),
                    );
                }
            } else if invalid {
                if code != Some(3) {
                    self.v("invalid_ctrl_not_rejected", &["C17"], format!("StreamingPull on {} ended with {:?} after an invalid control message", sub, code));
                }
            }
        }
    }

    fn check_invalid_ctrl_at_qp(&mut self) {
        let mut bad = Vec::new();
        for (call, s) in self.streams.iter() {
            if s.invalid_ctrl_sent && s.open && s.ended.is_none() && !s.aborted {
                if let Some(si) = s.sub_inst {
                    if self.subs[si].del_i.is_none() {
                        bad.push((*call, s.sub.clone()));
                    }
                }
            }
        }
        for (call, sub) in bad {
            self.v("invalid_ctrl_not_rejected", &["C17", "C07"], format!("StreamingPull (call {}) on {} is still open at a quiescent point after an invalid control message", call, sub));
        }
    }

    fn on_pull_all_end(&mut self, sub: &str, call: CallId) {
        let inv = self.tr.calls[call].invoke_idx;
        let si = match self.sub_definite(sub) {
            Some(i) => i,
            None => return,
        };
        if !self.is_calm(si, None) {
            return;
        }
        // only what was queued before the last (empty) pull began
        let avail: Vec<(u64, Why)> = self.subs[si]
            .msgs
            .iter()
            .filter_map(|(k, m)| match m {
                Ms::Queued { why, since } if *since < inv => Some((*k, why.clone())),
                _ => None,
            })
            .collect();
        if let Some((k, why)) = avail.into_iter().next() {
            let id = self.mkey_to_id.get(&k).cloned().unwrap_or_default();
            self.v(
                "available_not_obtainable",
                Self::why_props(&why),
                format!("message {} on {} is available ({:?}) but pulling until empty at t={}ns did not return it", id, sub, why, self.now),
            );
        }
    }

    fn final_checks(&mut self) {
        // a listing call must be answered (valid page or INVALID_ARGUMENT), whatever the token
        let unanswered: Vec<String> = self
            .tr
            .calls
            .iter()
            .filter(|c| matches!(c.req, Req::ListTopics { .. } | Req::ListSubs { .. } | Req::ListTopicSubs { .. }) && c.done.is_none() && c.aborted.is_none())
            .map(|c| format!("{:?}", c.req))
            .collect();
        if let Some(first) = unanswered.first() {
            let n = unanswered.len();
            self.v("list_call_never_answered", &["C13", "C17", "C07"], format!("{} listing call(s) were never answered, e.g. {}", n, first));
        }
        // C01: obligations
        if self.drain_started {
            for si in 0..self.subs.len() {
                if self.subs[si].del_i.is_some() {
                    continue;
                }
                let quiet = self.snames.get(&self.subs[si].name).map(|n| n.flux == 0 && !n.unknown && n.inst == Some(si)).unwrap_or(false);
                if !quiet {
                    continue;
                }
                let missing: Vec<u64> = self.subs[si].obligations.iter().filter(|k| !self.subs[si].delivered_once.contains(k) && !matches!(self.subs[si].msgs.get(k), Some(Ms::Maybe) | Some(Ms::Limbo) | Some(Ms::MaybeLeased))).cloned().collect();
                for k in missing.into_iter().take(3) {
                    let id = self.mkey_to_id.get(&k).cloned().unwrap_or_default();
                    let name = self.subs[si].name.clone();
                    self.v("never_delivered", &["C01"], format!("message {} was accepted while {} was attached but was never delivered on it, not even by the final drain", id, name));
                }
            }
        }
        // C08: first-delivery order across responses
        for si in 0..self.subs.len() {
            if self.subs[si].ever_tainted {
                continue;
            }
            let mut f = self.subs[si].first_deliveries.clone();
            if f.len() >= 2 {
                self.rep.feat.subs_with_first_deliveries += 1;
            }
            f.sort_by_key(|x| x.2);
            // prefix max of ids by hi_idx
            let mut pm: Vec<(usize, u128)> = Vec::with_capacity(f.len());
            let mut m = 0u128;
            for x in &f {
                m = m.max(x.3);
                pm.push((x.2, m));
            }
            for x in &f {
                // all F1 with hi_idx < x.lo_idx
                let pos = pm.partition_point(|p| p.0 < x.1);
                if pos > 0 && pm[pos - 1].1 > x.3 {
                    let name = self.subs[si].name.clone();
                    self.v("first_delivery_order", &["C08"], format!("on {} message id {} was first delivered by a call that began after the first delivery of the later-published id {} had been received", name, x.3, pm[pos - 1].1));
                    break;
                }
            }
        }
        // C08: id ranges of different publishes of one topic do not interleave, and follow real-time order
        let mut pubs: Vec<(usize, usize, u128, u128, String)> = Vec::new();
        for c in &self.tr.calls {
            if let (Req::Publish { topic, .. }, Some((ri, _, Outcome::PublishIds(ids)))) = (&c.req, &c.done) {
                let nums: Vec<u128> = ids.iter().filter_map(|i| parse_id(i)).collect();
                if nums.is_empty() {
                    continue;
                }
                pubs.push((c.invoke_idx, *ri, *nums.iter().min().unwrap(), *nums.iter().max().unwrap(), topic.clone()));
            }
        }
        if pubs.len() <= 400 {
            for a in 0..pubs.len() {
                for b in 0..pubs.len() {
                    if a == b {
                        continue;
                    }
                    let (pa, pb) = (&pubs[a], &pubs[b]);
                    if pa.2 <= pb.3 && pb.2 <= pa.3 && a < b {
                        self.v("publish_id_ranges_interleave", &["C08", "C09"], format!("ids of two Publish calls overlap: [{},{}] and [{},{}]", pa.2, pa.3, pb.2, pb.3));
                    }
                    if pa.4 == pb.4 && pa.1 < pb.0 {
                        // a returned before b was invoked; same topic name. Same instance unless deleted in between.
                        let recreated = self.topics.iter().filter(|t| t.name == pa.4).count() > 1;
                        if !recreated && pa.3 >= pb.2 {
                            self.v("publish_ids_vs_real_time", &["C08"], format!("Publish that returned ids up to {} completed before a Publish that returned id {} began", pa.3, pb.2));
                        }
                    }
                }
            }
        }
    }
}

// ---------------------------------------------------------------------------------------
// C10: per-name linearizability (WGL-style search)

#[derive(Clone, Debug)]
struct LinOp {
    inv: usize,
    ret: usize,
    /// 0 create, 1 delete, 2 use
    kind: u8,
    /// Some(true) = requires/establishes "present" on success, etc.
    /// code class: 0 OK, 1 says-absent (NOT_FOUND), 2 says-present (ALREADY_EXISTS), 3 unconstrained, 4 optional effect,
    /// 5 answered with another error status (no effect)
    class: u8,
    desc: String,
}

fn lin_search(ops: &[LinOp]) -> bool {
    // state: present? ; memo on (mask, state)
    let n = ops.len();
    if n > 30 || ops.iter().filter(|o| o.kind != 2).count() > 16 {
        return true; // too many overlapping calls on one name: not decided
    }
    let mut memo: HashSet<(u32, bool)> = HashSet::new();
    fn step(ops: &[LinOp], mut mask: u32, present: bool, memo: &mut HashSet<(u32, bool)>) -> bool {
        let n = ops.len();
        let full = (1u32 << n) - 1;
        // reads that agree with the current state can be linearized right away: they do not
        // change the state and taking them only relaxes the real-time constraint
        loop {
            if mask == full {
                return true;
            }
            let min_ret = (0..n).filter(|i| mask & (1 << i) == 0).map(|i| ops[i].ret).min().unwrap();
            let mut progressed = false;
            for i in 0..n {
                if mask & (1 << i) != 0 || ops[i].inv > min_ret || ops[i].kind != 2 {
                    continue;
                }
                let ok = match ops[i].class {
                    0 => present,
                    1 => !present,
                    _ => true,
                };
                if ok {
                    mask |= 1 << i;
                    progressed = true;
                }
            }
            if !progressed {
                break;
            }
        }
        if !memo.insert((mask, present)) {
            return false;
        }
        let min_ret = (0..n).filter(|i| mask & (1 << i) == 0).map(|i| ops[i].ret).min().unwrap();
        for i in 0..n {
            if mask & (1 << i) != 0 || ops[i].inv > min_ret || ops[i].kind == 2 {
                continue;
            }
            let o = &ops[i];
            let nexts: Vec<bool> = match (o.kind, o.class) {
                (0, 0) => if !present { vec![true] } else { vec![] },
                (0, 2) => if present { vec![true] } else { vec![] },
                (0, 4) => if !present { vec![true, false] } else { vec![true] },
                (1, 0) => if present { vec![false] } else { vec![] },
                (1, 1) => if !present { vec![false] } else { vec![] },
                (1, 4) => if present { vec![false, true] } else { vec![false] },
                _ => vec![present],
            };
            for np in nexts {
                if step(ops, mask | (1 << i), np, memo) {
                    return true;
                }
            }
        }
        false
    }
    step(ops, 0, false, &mut memo)
}

fn check_linearizability(tr: &Trace, rep: &mut Report) {
    let mut per_topic: HashMap<String, Vec<LinOp>> = HashMap::new();
    let mut per_sub: HashMap<String, Vec<LinOp>> = HashMap::new();
    let inf = usize::MAX;
    for c in &tr.calls {
        let (ret, code, aborted) = match (&c.done, &c.aborted) {
            (Some((ri, _, out)), _) => (*ri, out.code(), false),
            (None, Some(_)) => (inf, -1, true),
            (None, None) => (inf, -1, true),
        };
        let optional = aborted || !(code == 0 || code == 5 || code == 6 || code == 3);
        let cls = |ok_kind: u8| -> u8 {
            if optional {
                4
            } else if code == 0 {
                0
            } else if code == 5 {
                1
            } else if code == 6 {
                2
            } else {
                let _ = ok_kind;
                3
            }
        };
        let mut push_t = |name: &str, kind: u8, class: u8, desc: String| {
            per_topic.entry(name.to_string()).or_default().push(LinOp { inv: c.invoke_idx, ret, kind, class, desc });
        };
        match &c.req {
            // a create that was answered with an error has created nothing, whatever the status
            Req::CreateTopic { name } => push_t(name, 0, if !aborted && optional { 5 } else { cls(0) }, format!("CreateTopic->{}", code)),
            Req::DeleteTopic { name } => push_t(name, 1, cls(1), format!("DeleteTopic->{}", code)),
            Req::GetTopic { name } => {
                if !optional && code != 3 {
                    push_t(name, 2, cls(2), format!("GetTopic->{}", code))
                }
            }
            Req::Publish { topic, .. } => {
                if !optional && code != 3 {
                    push_t(topic, 2, cls(2), format!("Publish->{}", code))
                }
            }
            Req::ListTopicSubs { topic, size, .. } => {
                if !optional && code != 3 && *size >= 0 {
                    push_t(topic, 2, cls(2), format!("ListTopicSubscriptions->{}", code))
                }
            }
            Req::CreateSub { topic, .. } => {
                // OK => the topic was present; NOT_FOUND => it was absent
                if !optional && (code == 0 || code == 5) {
                    push_t(topic, 2, cls(2), format!("CreateSubscription(topic)->{}", code))
                }
            }
            _ => {}
        }
        let mut push_s = |name: &str, kind: u8, class: u8, desc: String| {
            per_sub.entry(name.to_string()).or_default().push(LinOp { inv: c.invoke_idx, ret, kind, class, desc });
        };
        match &c.req {
            Req::CreateSub { name, .. } => {
                // 5 (topic missing) and 3 (other project / bad endpoint) say nothing about the subscription name
                // any other error status: answered, so nothing was created ("with nothing created")
                let class = if aborted { 4 } else if optional { 5 } else if code == 0 { 0 } else if code == 6 { 2 } else { 3 };
                push_s(name, 0, class, format!("CreateSubscription->{}", code));
            }
            Req::DeleteSub { name } => push_s(name, 1, cls(1), format!("DeleteSubscription->{}", code)),
            Req::GetSub { name } => {
                if !optional && code != 3 {
                    push_s(name, 2, cls(2), format!("GetSubscription->{}", code))
                }
            }
            Req::Pull { sub, .. } | Req::Ack { sub, .. } | Req::Modify { sub, .. } | Req::StreamOpen { sub, .. } => {
                if !optional && code != 3 {
                    push_s(sub, 2, cls(2), format!("{}->{}", req_kind(&c.req), code))
                }
            }
            _ => {}
        }
    }
    for (kind, map) in [("topic", per_topic), ("subscription", per_sub)] {
        for (name, mut ops) in map {
            ops.sort_by_key(|o| o.inv);
            // split into independent windows: a point where no call is in flight and the
            // state is determined is not needed; the search handles sequences cheaply, but
            // bound the size by cutting at quiet points while carrying the state is complex —
            // instead decide windows of at most 22 calls greedily from quiet points.
            let mut start = 0;
            let mut present_known: Option<bool> = Some(false);
            while start < ops.len() {
                // extend window to a quiet point
                let mut end = start;
                let mut max_ret = 0usize;
                loop {
                    max_ret = max_ret.max(ops[end].ret);
                    end += 1;
                    if end >= ops.len() || ops[end].inv > max_ret {
                        break;
                    }
                }
                let full_window = &ops[start..end];
                // bound the search: keep every create/delete and the most constraining reads
                // (shortest intervals first); dropping reads only removes constraints
                let mut reduced: Vec<LinOp>;
                let window: &[LinOp] = if full_window.len() > 26 {
                    let muts = full_window.iter().filter(|o| o.kind != 2).count();
                    let keep_reads = 26usize.saturating_sub(muts);
                    let mut reads: Vec<&LinOp> = full_window.iter().filter(|o| o.kind == 2).collect();
                    reads.sort_by_key(|o| (o.ret.saturating_sub(o.inv), o.inv));
                    reads.truncate(keep_reads);
                    reduced = full_window.iter().filter(|o| o.kind != 2).cloned().collect();
                    reduced.extend(reads.into_iter().cloned());
                    reduced.sort_by_key(|o| o.inv);
                    &reduced
                } else {
                    full_window
                };
                // initial state: try known, else both
                let inits: Vec<bool> = match present_known {
                    Some(b) => vec![b],
                    None => vec![false, true],
                };
                let mut ok = false;
                let mut finals: HashSet<bool> = HashSet::new();
                for init in inits {
                    // encode the initial state as a leading pseudo op when present
                    let mut w: Vec<LinOp> = Vec::new();
                    if init {
                        w.push(LinOp { inv: 0, ret: 0, kind: 0, class: 0, desc: "init".into() });
                    }
                    w.extend_from_slice(window);
                    if w.len() > 29 {
                        ok = true;
                        finals.insert(true);
                        finals.insert(false);
                        continue;
                    }
                    for fin in [false, true] {
                        // require final state `fin` via a trailing pseudo "use" op
                        let mut w2 = w.clone();
                        let tail = w2.iter().map(|o| if o.ret == usize::MAX { 0 } else { o.ret }).max().unwrap_or(0).saturating_add(1);
                        let all_inf = w2.iter().any(|o| o.ret == usize::MAX);
                        w2.push(LinOp { inv: if all_inf { usize::MAX - 1 } else { tail }, ret: usize::MAX, kind: 2, class: if fin { 0 } else { 1 }, desc: "final".into() });
                        if lin_search(&w2) {
                            ok = true;
                            finals.insert(fin);
                        }
                    }
                }
                if !ok {
                    // a frequent special shape: several overlapping deletes of one name all answer OK
                    // (the later ones found the resource while the first was still being deleted)
                    let dels: Vec<usize> = (0..window.len()).filter(|i| window[*i].kind == 1 && window[*i].class == 0).collect();
                    let mut relaxed_ok = false;
                    if dels.len() >= 2 && window.len() <= 20 {
                        let mut w: Vec<LinOp> = Vec::new();
                        if present_known != Some(false) {
                            w.push(LinOp { inv: 0, ret: 0, kind: 0, class: 0, desc: "init".into() });
                        }
                        for (i, o) in window.iter().enumerate() {
                            let mut o = o.clone();
                            // keep the first delete strict, let overlapping later ones say nothing
                            if dels[1..].contains(&i) && o.inv < window[dels[0]].ret {
                                o.class = 3;
                                o.kind = 2;
                            }
                            w.push(o);
                        }
                        relaxed_ok = lin_search(&w);
                    }
                    if relaxed_ok {
                        rep.violations.push(Violation {
                            rule: "overlapping_deletes_all_ok".into(),
                            props: vec!["C10".into()],
                            at: window.last().map(|o| o.inv).unwrap_or(0),
                            detail: format!(
                                "{} name {}: {} overlapping delete calls all answered OK (a delete of an absent name must answer NOT_FOUND): {:?}",
                                kind,
                                name,
                                dels.len(),
                                window.iter().map(|o| format!("{}@{}..{}", o.desc, o.inv, if o.ret == usize::MAX { -1 } else { o.ret as i64 })).collect::<Vec<_>>()
                            ),
                        });
                        present_known = None;
                        start = end;
                        continue;
                    }
                    let overlapping = window.windows(2).any(|p| p[1].inv < p[0].ret);
                    rep.violations.push(Violation {
                        rule: "not_linearizable".into(),
                        props: vec!["C10".into()],
                        at: window.last().map(|o| o.inv).unwrap_or(0),
                        detail: format!(
                            "{} name {}: no linearization of {:?} (state before: {:?}, overlapping calls: {})",
                            kind,
                            name,
                            window.iter().map(|o| format!("{}@{}..{}", o.desc, o.inv, if o.ret == usize::MAX { -1 } else { o.ret as i64 })).collect::<Vec<_>>(),
                            present_known,
                            overlapping
                        ),
                    });
                    present_known = None;
                } else {
                    present_known = if finals.len() == 1 { finals.into_iter().next() } else { None };
                }
                start = end;
            }
        }
    }
}

fn req_kind(r: &Req) -> &'static str {
    match r {
        Req::CreateTopic { .. } => "CreateTopic",
        Req::DeleteTopic { .. } => "DeleteTopic",
        Req::GetTopic { .. } => "GetTopic",
        Req::CreateSub { .. } => "CreateSubscription",
        Req::DeleteSub { .. } => "DeleteSubscription",
        Req::GetSub { .. } => "GetSubscription",
        Req::ListTopics { .. } => "ListTopics",
        Req::ListSubs { .. } => "ListSubscriptions",
        Req::ListTopicSubs { .. } => "ListTopicSubscriptions",
        Req::Publish { .. } => "Publish",
        Req::Pull { .. } => "Pull",
        Req::Ack { .. } => "Acknowledge",
        Req::Modify { .. } => "ModifyAckDeadline",
        Req::StreamOpen { .. } => "StreamingPull",
    }
}

fn project_of(name: &str) -> Option<&str> {
    let rest = name.strip_prefix("projects/")?;
    rest.split('/').next()
}

/// Status rules of single calls that do not need the model state.
fn check_static_rules(tr: &Trace, rep: &mut Report) {
    for c in &tr.calls {
        let code = match &c.done {
            Some((_, _, o)) => o.code(),
            None => continue,
        };
        if let Req::CreateSub { name, topic, push, .. } = &c.req {
            let cross = project_of(name) != project_of(topic);
            let bad_push = push.as_ref().map(|p| !p.endpoint.trim().starts_with("http")).unwrap_or(false);
            if code == 0 && cross {
                rep.violations.push(Violation { rule: "cross_project_subscription_created".into(), props: vec!["C10".into()], at: c.invoke_idx, detail: format!("CreateSubscription({} on {}) succeeded across projects", name, topic) });
            }
            if code == 0 && bad_push {
                rep.violations.push(Violation { rule: "bad_push_endpoint_accepted".into(), props: vec!["C17".into(), "C10".into()], at: c.invoke_idx, detail: format!("CreateSubscription with push endpoint {:?} succeeded", push.as_ref().map(|p| &p.endpoint)) });
            }
        }
        // any status a client can get must be a proper gRPC status; INTERNAL/UNKNOWN from a panic is caught via the panic list
    }
    if !tr.panics.is_empty() {
        rep.violations.push(Violation { rule: "panic".into(), props: vec!["C17".into(), "C13".into()], at: 0, detail: format!("panic(s) during the case: {:?}", tr.panics.iter().take(2).collect::<Vec<_>>()) });
    }
}

pub fn analyze(tr: &Trace) -> Report {
    let mut m = Model {
        tr,
        topics: Vec::new(),
        subs: Vec::new(),
        tnames: HashMap::new(),
        snames: HashMap::new(),
        id_to_mkey: HashMap::new(),
        seen_pub_ids: HashMap::new(),
        mkey_to_id: HashMap::new(),
        mrec: tr.msgs.iter().map(|r| (r.mkey, r)).collect(),
        pub_time_seen: HashMap::new(),
        streams: HashMap::new(),
        pull_snapshot: HashMap::new(),
        ack_snapshot: HashMap::new(),
        inflight_pubs: HashSet::new(),
        delete_target: HashMap::new(),
        mod_snapshots: HashMap::new(),
        stream_snaps: HashMap::new(),
        walks: HashMap::new(),
        last_mutation_idx: 0,
        stalled_now: 0,
        rep: Report::default(),
        now: 0,
        idx: 0,
        drain_started: false,
        stuck_reported: false,
        last_qp_idx: 0,
        ack_prior: HashMap::new(),
        token_format_ok: true,
    };
    // ids are known post-hoc: map them up front so that deliveries racing a publish resolve
    for c in &tr.calls {
        if let (Req::Publish { mkeys, .. }, Some((_, _, Outcome::PublishIds(ids)))) = (&c.req, &c.done) {
            for (k, id) in mkeys.iter().zip(ids.iter()) {
                m.id_to_mkey.entry(id.clone()).or_insert(*k);
            }
        }
    }
    let mut last_t = u64::MAX;
    for (i, ev) in tr.events.iter().enumerate() {
        m.idx = i;
        m.now = ev.t;
        if ev.t != last_t {
            // lease windows only move with the clock
            m.time_rule();
            last_t = ev.t;
        }
        match &ev.kind {
            EvKind::Invoke { call } => {
                if matches!(tr.calls[*call].req, Req::CreateTopic { .. } | Req::DeleteTopic { .. } | Req::CreateSub { .. } | Req::DeleteSub { .. }) {
                    m.last_mutation_idx = i;
                }
                m.on_invoke(*call)
            }
            EvKind::Return { call } => {
                if matches!(tr.calls[*call].req, Req::CreateTopic { .. } | Req::DeleteTopic { .. } | Req::CreateSub { .. } | Req::DeleteSub { .. }) {
                    m.last_mutation_idx = i;
                }
                m.on_return(*call);
                m.on_list_return(*call);
            }
            EvKind::Aborted { call } => {
                if matches!(tr.calls[*call].req, Req::CreateTopic { .. } | Req::DeleteTopic { .. } | Req::CreateSub { .. } | Req::DeleteSub { .. }) {
                    m.last_mutation_idx = i;
                }
                m.on_abort(*call)
            }
            EvKind::StreamMsg { call, recvs } => m.on_stream_msg(*call, recvs),
            EvKind::StreamEnd { call, code } => m.on_stream_end(*call, *code),
            EvKind::StreamSend { call, acks, mods } => m.on_stream_send(*call, acks, mods),
            EvKind::StreamCloseSend { call } => {
                if let Some(s) = m.streams.get_mut(call) {
                    s.close_sent = true;
                }
            }
            EvKind::Qp { stats, stalled } => {
                m.stalled_now = *stalled;
                // nothing is runnable at a quiescent point and the harness holds no task at a
                // stall point: a unary call other than a blocking Pull that has not returned by
                // now is waiting for something that will not happen by itself
                if *stalled == 0 && !m.drain_started {
                    let stuck: Vec<String> = tr
                        .calls
                        .iter()
                        .filter(|c| c.invoke_idx < i && c.done.as_ref().map(|d| d.0 > i).unwrap_or(true) && c.aborted.map(|a| a.0 > i).unwrap_or(true))
                        .filter(|c| !matches!(c.req, Req::Pull { ri: false, .. } | Req::StreamOpen { .. }))
                        .take(6)
                        .map(|c| format!("{}#{}", req_kind(&c.req), c.id))
                        .collect();
                    if !stuck.is_empty() && !m.stuck_reported {
                        m.stuck_reported = true;
                        m.v("call_stuck_at_quiescence", &["C07"], format!("with nothing runnable and no task held by the harness, these calls have not returned: {:?}", stuck));
                    }
                }
                m.on_qp(stats);
                m.check_invalid_ctrl_at_qp();
            }
            EvKind::Clock => {}
            EvKind::Horizon { pending } => {
                if !pending.is_empty() {
                    let kinds: Vec<String> = pending.iter().take(6).map(|c| format!("{}#{}", req_kind(&tr.calls[*c].req), c)).collect();
                    let on_deleted = pending.iter().any(|c| {
                        let sub = match &tr.calls[*c].req {
                            Req::Pull { sub, .. } | Req::Ack { sub, .. } | Req::Modify { sub, .. } | Req::StreamOpen { sub, .. } => Some(sub),
                            Req::DeleteSub { name } | Req::GetSub { name } => Some(name),
                            _ => None,
                        };
                        sub.map(|s| tr.calls.iter().any(|d| matches!(&d.req, Req::DeleteSub { name } if name == s))).unwrap_or(false)
                    });
                    let props: &[&str] = if on_deleted { &["C07", "C12"] } else { &["C07"] };
                    m.v("calls_pending_forever", props, format!("{} call(s) still pending after the clock advanced by an hour with nothing runnable: {:?}", pending.len(), kinds));
                }
            }
            EvKind::DrainStart => m.drain_started = true,
            EvKind::PullAllEnd { sub, call } => m.on_pull_all_end(sub, *call),
            EvKind::Skipped { .. } => {}
            EvKind::Snapshot { .. } => {}
            EvKind::StreamSendRaw { call, subscription, max_out, max_bytes, acks, mod_ids, mod_secs } => {
                let valid = subscription.is_empty()
                    && *max_out == 0
                    && *max_bytes == 0
                    && mod_ids.len() == mod_secs.len()
                    && acks.iter().all(|a| valid_ack_id(a))
                    && mod_ids.iter().all(|a| valid_ack_id(a))
                    && mod_secs.iter().all(|n| *n >= 0);
                if valid {
                    let mods: Vec<(String, i32)> = mod_ids.iter().cloned().zip(mod_secs.iter().cloned()).collect();
                    m.on_stream_send(*call, acks, &mods);
                } else {
                    // must be rejected as a whole: nothing applied, the stream ends with INVALID_ARGUMENT
                    m.on_stream_send(*call, &["\u{0}invalid".to_string()], &[]);
                }
            }
        }
    }
    m.final_checks();
    let mut rep = m.rep;
    rep.feat.max_in_flight = tr.max_in_flight;
    check_linearizability(tr, &mut rep);
    check_static_rules(tr, &mut rep);
    rep
}
