//! Engine SIM: one deterministic thread, paused clock, in-process gRPC.
use crate::case::*;
use crate::trace::*;
use deltio::pubsub_proto::publisher_client::PublisherClient;
use deltio::pubsub_proto::subscriber_client::SubscriberClient;
use deltio::pubsub_proto::*;
use deltio::subscriptions::{AckDeadline, SubscriptionName};
use deltio::Deltio;
use futures::future::BoxFuture;
use futures::FutureExt;
use std::collections::HashMap;
use std::sync::{Arc, Mutex};
use std::time::Duration;
use tokio::sync::{mpsc, Notify};
use tokio::time::Instant;
use tonic::service::Routes;

#[derive(Clone, Debug)]
pub struct RunCfg {
    /// after the history: advance one hour and record which calls are still pending
    pub horizon: bool,
    /// after that: drain every subscription (nack known deliveries, wait, pull all, ack)
    pub drain: bool,
    /// settle (quiescent point + stats) after every op
    pub qp_each_op: bool,
}

impl Default for RunCfg {
    fn default() -> Self {
        RunCfg { horizon: true, drain: true, qp_each_op: false }
    }
}

type Pubc = PublisherClient<Wire>;
type Subc = SubscriberClient<Wire>;

/// The in-process "wire": the tonic Routes service plus one correction. tonic's server does
/// not escape '%' when it writes a status message into the grpc-message header, and tonic's
/// client turns a message it cannot percent-decode into code UNKNOWN. Deltio echoes request
/// fields in its messages, so a field containing e.g. "%aA" would make this harness's client
/// report UNKNOWN although the status on the wire is INVALID_ARGUMENT. The wrapper strips '%'
/// from grpc-message (headers and trailers) so that the client reports the code that was sent.
#[derive(Clone)]
pub struct Wire(Routes);

impl Wire {
    pub fn new(routes: Routes) -> Self {
        Wire(routes)
    }
}

fn sanitize_headers(h: &mut http::HeaderMap) {
    if let Some(v) = h.get("grpc-message") {
        if v.as_bytes().contains(&b'%') {
            let cleaned: Vec<u8> = v.as_bytes().iter().cloned().filter(|b| *b != b'%').collect();
            if let Ok(nv) = http::HeaderValue::from_bytes(&cleaned) {
                h.insert("grpc-message", nv);
            }
        }
    }
}

impl tower::Service<http::Request<tonic::body::BoxBody>> for Wire {
    type Response = http::Response<tonic::body::BoxBody>;
    type Error = Box<dyn std::error::Error + Send + Sync>;
    type Future = BoxFuture<'static, Result<Self::Response, Self::Error>>;

    fn poll_ready(&mut self, cx: &mut std::task::Context<'_>) -> std::task::Poll<Result<(), Self::Error>> {
        tower::Service::<http::Request<tonic::body::BoxBody>>::poll_ready(&mut self.0, cx)
    }

    fn call(&mut self, req: http::Request<tonic::body::BoxBody>) -> Self::Future {
        use http_body_util::BodyExt;
        let fut = self.0.call(req);
        async move {
            let resp = fut.await?;
            let (mut parts, body) = resp.into_parts();
            sanitize_headers(&mut parts.headers);
            let body = body
                .map_frame(|f| match f.into_trailers() {
                    Ok(mut t) => {
                        sanitize_headers(&mut t);
                        http_body::Frame::trailers(t)
                    }
                    Err(f) => f,
                })
                .boxed_unsync();
            Ok(http::Response::from_parts(parts, body))
        }
        .boxed()
    }
}

#[derive(Clone)]
struct Del {
    ack_id: String,
    nominal_deadline: u64,
}

struct Shared {
    t0: Instant,
    trace: Trace,
    published: HashMap<u64, (Vec<u8>, Vec<(String, String)>)>,
    deliveries: HashMap<String, Vec<Del>>,
    sub_dl: HashMap<String, u64>,
    in_flight: usize,
}

impl Shared {
    fn now(&self) -> u64 {
        Instant::now().duration_since(self.t0).as_nanos() as u64
    }
    fn push(&mut self, kind: EvKind) -> (usize, u64) {
        let t = self.now();
        self.trace.events.push(Ev { t, kind });
        (self.trace.events.len() - 1, t)
    }
    fn note_recvs(&mut self, sub: &str, recvs: &[Recv], t: u64) {
        let dl = self.sub_dl.get(sub).copied().unwrap_or(10);
        let list = self.deliveries.entry(sub.to_string()).or_default();
        for r in recvs {
            list.push(Del { ack_id: r.ack_id.clone(), nominal_deadline: t.saturating_add(dl.saturating_mul(1_000_000_000)) });
        }
    }
}

type Sh = Arc<Mutex<Shared>>;

struct Pending {
    call: CallId,
    handle: tokio::task::JoinHandle<()>,
}

struct StreamH {
    call: CallId,
    sub: String,
    tx: Option<mpsc::UnboundedSender<StreamingPullRequest>>,
    handle: tokio::task::JoinHandle<()>,
}

pub const MARK: u64 = 0xA5u64 << 56;

pub fn make_payload(mkey: u64, p: &Payload) -> (Vec<u8>, Vec<(String, String)>, bool) {
    let mut data = Vec::new();
    let mut has_marker = true;
    match p.kind {
        1 => {
            has_marker = false;
        }
        2 => {
            has_marker = false;
            data.push(mkey as u8);
        }
        3 => {
            data.extend_from_slice(&mkey.to_be_bytes());
            data.extend((0..=255u8).collect::<Vec<_>>());
        }
        4 => {
            data.extend_from_slice(&mkey.to_be_bytes());
            let mut x = mkey | 1;
            let mut block = Vec::with_capacity(4096);
            for _ in 0..p.len.min(4096) {
                x ^= x << 13;
                x ^= x >> 7;
                x ^= x << 17;
                block.push(x as u8);
            }
            // long payloads repeat their first block
            while data.len() < 8 + p.len as usize {
                let take = (8 + p.len as usize - data.len()).min(block.len());
                data.extend_from_slice(&block[..take]);
            }
        }
        _ => {
            data.extend_from_slice(&mkey.to_be_bytes());
        }
    }
    let mut attrs = Vec::new();
    if p.kind == 5 {
        // the same strings arranged differently in neighbouring messages of one request
        let variants: [&[(&str, &str)]; 4] = [&[("from", "alice"), ("to", "bob")], &[("from", "bob"), ("to", "alice")], &[("x", "x")], &[("y", "y")]];
        for (k, v) in variants[(mkey % 4) as usize] {
            attrs.push((k.to_string(), v.to_string()));
        }
    }
    for i in 0..p.attrs {
        attrs.push((format!("k{}", i), format!("v{:x}-{}", mkey, i)));
    }
    if p.odd {
        attrs.push(("".to_string(), "empty-key".to_string()));
        attrs.push(("empty-value".to_string(), "".to_string()));
        attrs.push(("ключ-é✓".to_string(), "значение \u{1F600} \"q\" \\ \n".to_string()));
        attrs.push(("long".to_string(), "x".repeat(3000)));
    }
    attrs.sort();
    attrs.dedup_by(|a, b| a.0 == b.0);
    (data, attrs, has_marker)
}

fn to_recv(m: &ReceivedMessage) -> Recv {
    let pm = m.message.clone().unwrap_or_default();
    let marker = if pm.data.len() >= 8 {
        let v = u64::from_be_bytes(pm.data[0..8].try_into().unwrap());
        if v & (0xFFu64 << 56) == MARK {
            Some(v)
        } else {
            None
        }
    } else {
        None
    };
    let mut attrs: Vec<(String, String)> = pm.attributes.into_iter().collect();
    attrs.sort();
    Recv {
        ack_id: m.ack_id.clone(),
        msg_id: pm.message_id,
        marker,
        data_len: pm.data.len(),
        data_hash: fnv(&pm.data),
        attrs,
        publish_time: pm.publish_time.map(|t| (t.seconds, t.nanos)).unwrap_or((0, 0)),
    }
}

fn status(s: tonic::Status) -> Outcome {
    Outcome::Status { code: s.code() as i32, msg: s.message().chars().take(120).collect() }
}

fn push_req_to_proto(p: &PushReq) -> PushConfig {
    PushConfig {
        push_endpoint: p.endpoint.clone(),
        attributes: p.attrs.iter().cloned().collect(),
        authentication_method: p.oidc.as_ref().map(|(email, aud)| {
            push_config::AuthenticationMethod::OidcToken(push_config::OidcToken {
                service_account_email: email.clone(),
                audience: aud.clone(),
            })
        }),
        ..Default::default()
    }
}

fn sub_view(s: &Subscription) -> SubView {
    SubView {
        name: s.name.clone(),
        topic: s.topic.clone(),
        dl: s.ack_deadline_seconds,
        push: s.push_config.as_ref().map(|p| {
            let mut attrs: Vec<(String, String)> = p.attributes.clone().into_iter().collect();
            attrs.sort();
            PushReq {
                endpoint: p.push_endpoint.clone(),
                attrs,
                oidc: p.authentication_method.as_ref().map(|m| match m {
                    push_config::AuthenticationMethod::OidcToken(t) => {
                        (t.service_account_email.clone(), t.audience.clone())
                    }
                }),
            }
        }),
    }
}

/// Builds the future performing one unary request.
pub fn exec(
    req: Req,
    msgs: Vec<PubsubMessage>,
    mut p: Pubc,
    mut s: Subc,
) -> BoxFuture<'static, Outcome> {
    async move {
        match req {
            Req::CreateTopic { name } => {
                match p.create_topic(Topic { name, ..Default::default() }).await {
                    Ok(r) => Outcome::Topic { name: r.into_inner().name },
                    Err(e) => status(e),
                }
            }
            Req::DeleteTopic { name } => {
                match p.delete_topic(DeleteTopicRequest { topic: name }).await {
                    Ok(_) => Outcome::Empty,
                    Err(e) => status(e),
                }
            }
            Req::GetTopic { name } => match p.get_topic(GetTopicRequest { topic: name }).await {
                Ok(r) => Outcome::Topic { name: r.into_inner().name },
                Err(e) => status(e),
            },
            Req::CreateSub { name, topic, dl, push } => {
                let r = s
                    .create_subscription(Subscription {
                        name,
                        topic,
                        ack_deadline_seconds: dl,
                        push_config: push.as_ref().map(push_req_to_proto),
                        ..Default::default()
                    })
                    .await;
                match r {
                    Ok(r) => Outcome::Sub(sub_view(r.get_ref())),
                    Err(e) => status(e),
                }
            }
            Req::DeleteSub { name } => {
                match s.delete_subscription(DeleteSubscriptionRequest { subscription: name }).await
                {
                    Ok(_) => Outcome::Empty,
                    Err(e) => status(e),
                }
            }
            Req::GetSub { name } => {
                match s.get_subscription(GetSubscriptionRequest { subscription: name }).await {
                    Ok(r) => Outcome::Sub(sub_view(r.get_ref())),
                    Err(e) => status(e),
                }
            }
            Req::ListTopics { project, size, token } => {
                match p
                    .list_topics(ListTopicsRequest { project, page_size: size, page_token: token })
                    .await
                {
                    Ok(r) => {
                        let r = r.into_inner();
                        Outcome::TopicList {
                            names: r.topics.into_iter().map(|t| t.name).collect(),
                            next: r.next_page_token,
                        }
                    }
                    Err(e) => status(e),
                }
            }
            Req::ListSubs { project, size, token } => {
                match s
                    .list_subscriptions(ListSubscriptionsRequest {
                        project,
                        page_size: size,
                        page_token: token,
                    })
                    .await
                {
                    Ok(r) => {
                        let r = r.into_inner();
                        Outcome::SubList {
                            subs: r.subscriptions.iter().map(sub_view).collect(),
                            next: r.next_page_token,
                        }
                    }
                    Err(e) => status(e),
                }
            }
            Req::ListTopicSubs { topic, size, token } => {
                match p
                    .list_topic_subscriptions(ListTopicSubscriptionsRequest {
                        topic,
                        page_size: size,
                        page_token: token,
                    })
                    .await
                {
                    Ok(r) => {
                        let r = r.into_inner();
                        Outcome::NameList { names: r.subscriptions, next: r.next_page_token }
                    }
                    Err(e) => status(e),
                }
            }
            Req::Publish { topic, .. } => {
                match p.publish(PublishRequest { topic, messages: msgs }).await {
                    Ok(r) => Outcome::PublishIds(r.into_inner().message_ids),
                    Err(e) => status(e),
                }
            }
            Req::Pull { sub, max, ri } => {
                #[allow(deprecated)]
                let r = s
                    .pull(PullRequest { subscription: sub, max_messages: max, return_immediately: ri })
                    .await;
                match r {
                    Ok(r) => Outcome::Pulled(r.get_ref().received_messages.iter().map(to_recv).collect()),
                    Err(e) => status(e),
                }
            }
            Req::Ack { sub, ack_ids } => {
                match s.acknowledge(AcknowledgeRequest { subscription: sub, ack_ids }).await {
                    Ok(_) => Outcome::Empty,
                    Err(e) => status(e),
                }
            }
            Req::Modify { sub, ack_ids, secs } => {
                match s
                    .modify_ack_deadline(ModifyAckDeadlineRequest {
                        subscription: sub,
                        ack_ids,
                        ack_deadline_seconds: secs,
                    })
                    .await
                {
                    Ok(_) => Outcome::Empty,
                    Err(e) => status(e),
                }
            }
            Req::StreamOpen { .. } => unreachable!("streams are handled separately"),
        }
    }
    .boxed()
}

pub struct Interp {
    sh: Sh,
    p: Pubc,
    s: Subc,
    app: Arc<Deltio>,
    pending: Vec<Pending>,
    streams: Vec<StreamH>,
    done: Arc<Notify>,
    next_mkey: u64,
    known_subs: Vec<String>,
    known_topics: Vec<String>,
    cfg: RunCfg,
    gate: Arc<Notify>,
}

async fn yields(n: usize) {
    for _ in 0..n {
        tokio::task::yield_now().await;
    }
}

/// Run everything that is runnable at the current instant (including timers that are
/// due) without letting the clock move.
async fn drain_now() {
    yields(160).await;
}

impl Interp {
    fn new_call(&self, op: usize, req: Req) -> CallId {
        let mut sh = self.sh.lock().unwrap();
        let id = sh.trace.calls.len();
        let (idx, t) = sh.push(EvKind::Invoke { call: id });
        sh.trace.calls.push(CallInfo {
            id,
            op,
            req,
            invoke_idx: idx,
            invoke_t: t,
            done: None,
            aborted: None,
            polls: None,
        });
        sh.in_flight += 1;
        if sh.in_flight > sh.trace.max_in_flight {
            sh.trace.max_in_flight = sh.in_flight;
        }
        id
    }

    fn finish(sh: &Sh, call: CallId, out: Outcome) {
        let mut sh = sh.lock().unwrap();
        // bookkeeping used for resolving later references
        let req = sh.trace.calls[call].req.clone();
        let now = sh.now();
        match (&req, &out) {
            (Req::Pull { sub, .. }, Outcome::Pulled(recvs)) => {
                let recvs = recvs.clone();
                sh.note_recvs(sub, &recvs, now);
            }
            (Req::CreateSub { name, dl, .. }, Outcome::Sub(_)) => {
                let d = if *dl <= 10 { 10 } else { *dl as u64 };
                sh.sub_dl.insert(name.clone(), d);
                sh.deliveries.remove(name);
            }
            (Req::Modify { sub, ack_ids, secs }, Outcome::Empty) if *secs > 0 => {
                let inv = sh.trace.calls[call].invoke_t;
                let n = (*secs).min(600) as u64;
                if let Some(list) = sh.deliveries.get_mut(sub) {
                    for d in list.iter_mut() {
                        if ack_ids.contains(&d.ack_id) {
                            d.nominal_deadline = inv + n * 1_000_000_000;
                        }
                    }
                }
            }
            _ => {}
        }
        let (idx, t) = sh.push(EvKind::Return { call });
        sh.trace.calls[call].done = Some((idx, t, out));
        sh.in_flight -= 1;
    }

    fn spawn_call(&mut self, op: usize, req: Req, msgs: Vec<PubsubMessage>) -> CallId {
        let call = self.new_call(op, req.clone());
        let fut = exec(req, msgs, self.p.clone(), self.s.clone());
        let sh = self.sh.clone();
        let done = self.done.clone();
        let handle = tokio::spawn(async move {
            let out = fut.await;
            Interp::finish(&sh, call, out);
            done.notify_waiters();
        });
        self.pending.push(Pending { call, handle });
        call
    }

    fn is_done(&self, call: CallId) -> bool {
        let sh = self.sh.lock().unwrap();
        sh.trace.calls[call].done.is_some() || sh.trace.calls[call].aborted.is_some()
    }

    /// Wait until the call completes or the system is quiescent with the call pending.
    async fn await_call(&mut self, call: CallId) -> bool {
        let done = self.done.clone();
        let r = loop {
            if self.is_done(call) {
                break true;
            }
            let notified = done.notified();
            tokio::pin!(notified);
            // register interest before re-checking
            notified.as_mut().enable();
            if self.is_done(call) {
                break true;
            }
            tokio::select! {
                biased;
                _ = &mut notified => {}
                _ = tokio::time::sleep(Duration::from_millis(1)) => {
                    break self.is_done(call);
                }
            }
        };
        self.gc();
        r
    }

    fn gc(&mut self) {
        let sh = self.sh.lock().unwrap();
        self.pending.retain(|p| {
            sh.trace.calls[p.call].done.is_none() && sh.trace.calls[p.call].aborted.is_none()
        });
    }

    async fn run_call(&mut self, op: usize, req: Req, msgs: Vec<PubsubMessage>, a: bool) -> CallId {
        let call = self.spawn_call(op, req, msgs);
        if !a {
            self.await_call(call).await;
        }
        call
    }

    fn outcome(&self, call: CallId) -> Option<Outcome> {
        self.sh.lock().unwrap().trace.calls[call].done.as_ref().map(|d| d.2.clone())
    }

    fn resolve_ref(&self, sub: &str, r: &AckRef) -> Option<String> {
        let sh = self.sh.lock().unwrap();
        match r {
            AckRef::Recent(i) => {
                let l = sh.deliveries.get(sub)?;
                if l.is_empty() {
                    return None;
                }
                Some(l[l.len() - 1 - pick(*i, l.len())].ack_id.clone())
            }
            AckRef::Own(i) => {
                let l = sh.deliveries.get(sub)?;
                if l.is_empty() {
                    return None;
                }
                Some(l[pick(*i, l.len())].ack_id.clone())
            }
            AckRef::Foreign(i) => {
                let mut names: Vec<&String> = sh.deliveries.keys().filter(|k| *k != sub).collect();
                names.sort();
                let all: Vec<&Del> = names.iter().flat_map(|n| sh.deliveries[*n].iter()).collect();
                if all.is_empty() {
                    return None;
                }
                Some(all[pick(*i, all.len())].ack_id.clone())
            }
            AckRef::Unknown(n) => Some(format!("{}", 1_000_000u64 + *n as u64)),
            AckRef::Malformed(k) => {
                Some(MALFORMED_ACK_IDS[*k as usize % MALFORMED_ACK_IDS.len()].to_string())
            }
        }
    }

    fn resolve_refs(&self, sub: &str, refs: &[AckRef]) -> Vec<String> {
        refs.iter().filter_map(|r| self.resolve_ref(sub, r)).collect()
    }

    fn note_names(&mut self, s: Option<&str>, t: Option<&str>) {
        if let Some(s) = s {
            if !self.known_subs.iter().any(|x| x == s) {
                self.known_subs.push(s.to_string());
            }
        }
        if let Some(t) = t {
            if !self.known_topics.iter().any(|x| x == t) {
                self.known_topics.push(t.to_string());
            }
        }
    }

    fn build_publish(&mut self, topic: String, n: u32, payload: &Payload) -> (Req, Vec<PubsubMessage>) {
        let mut mkeys = Vec::new();
        let mut msgs = Vec::new();
        let mut sh = self.sh.lock().unwrap();
        let call_id = sh.trace.calls.len();
        for idx in 0..n as usize {
            self.next_mkey += 1;
            let mkey = MARK | self.next_mkey;
            let (data, attrs, has_marker) = make_payload(mkey, payload);
            sh.trace.msgs.push(MsgRec {
                mkey,
                call: call_id,
                idx,
                has_marker,
                data_len: data.len(),
                data_hash: fnv(&data),
                attrs: attrs.clone(),
            });
            msgs.push(PubsubMessage {
                data: data.clone(),
                attributes: attrs.iter().cloned().collect(),
                ..Default::default()
            });
            sh.published.insert(mkey, (data, attrs));
            mkeys.push(mkey);
        }
        (Req::Publish { topic, mkeys }, msgs)
    }

    pub async fn settle(&mut self) {
        tokio::time::sleep(Duration::from_millis(1)).await;
        // other timers may be due at the very instant our own timer fired: let everything
        // that is runnable at this instant run before calling it a quiescent point
        drain_now().await;
        self.gc();
        self.qp().await;
    }

    /// Renders the complete observable state: every listing, every subscription resource,
    /// the subscriptions of every known topic, and the stats of every known subscription.
    /// Uses unrecorded calls so that the trace and the model are not disturbed.
    pub async fn snapshot(&mut self) {
        let mut out = String::new();
        let mut p = self.p.clone();
        let mut s = self.s.clone();
        for proj in ["projects/p0", "projects/p1", "projects/zz"] {
            let mut token = String::new();
            out.push_str(&format!("topics {}:", proj));
            for _ in 0..100 {
                match p.list_topics(ListTopicsRequest { project: proj.into(), page_size: 1000, page_token: token.clone() }).await {
                    Ok(r) => {
                        let r = r.into_inner();
                        for t in r.topics {
                            out.push_str(&format!(" {}", t.name));
                        }
                        if r.next_page_token.is_empty() {
                            break;
                        }
                        token = r.next_page_token;
                    }
                    Err(e) => {
                        out.push_str(&format!(" !{}", e.code() as i32));
                        break;
                    }
                }
            }
            out.push('\n');
            let mut token = String::new();
            out.push_str(&format!("subs {}:", proj));
            for _ in 0..100 {
                match s.list_subscriptions(ListSubscriptionsRequest { project: proj.into(), page_size: 1000, page_token: token.clone() }).await {
                    Ok(r) => {
                        let r = r.into_inner();
                        for x in r.subscriptions.iter() {
                            out.push_str(&format!(" {:?}", sub_view(x)));
                        }
                        if r.next_page_token.is_empty() {
                            break;
                        }
                        token = r.next_page_token;
                    }
                    Err(e) => {
                        out.push_str(&format!(" !{}", e.code() as i32));
                        break;
                    }
                }
            }
            out.push('\n');
        }
        let mut topics = self.known_topics.clone();
        topics.sort();
        for t in topics {
            out.push_str(&format!("attached {}:", t));
            match p.list_topic_subscriptions(ListTopicSubscriptionsRequest { topic: t.clone(), page_size: 1000, page_token: String::new() }).await {
                Ok(r) => {
                    for x in r.into_inner().subscriptions {
                        out.push_str(&format!(" {}", x));
                    }
                }
                Err(e) => out.push_str(&format!(" !{}", e.code() as i32)),
            }
            out.push('\n');
            // names this run merely heard of but that do not exist say nothing about the state
            if out.ends_with(": !5\n") {
                let cut = out[..out.len() - 1].rfind('\n').map(|i| i + 1).unwrap_or(0);
                out.truncate(cut);
            }
        }
        let (_, sm, reg) = self.app.verif_parts();
        let mut subs = self.known_subs.clone();
        subs.sort();
        for name in subs {
            let parsed = SubscriptionName::try_parse(&name);
            let sub = parsed.and_then(|n| sm.get_subscription(&n).ok());
            match sub {
                None => {}
                Some(sub) => {
                    let fut = sub.get_stats();
                    tokio::pin!(fut);
                    let mut res = None;
                    for _ in 0..400 {
                        if let std::task::Poll::Ready(r) = futures::poll!(fut.as_mut()) {
                            res = Some(r);
                            break;
                        }
                        tokio::task::yield_now().await;
                    }
                    match res {
                        Some(Ok(st)) => out.push_str(&format!("stats {}: backlog={} outstanding={} topic={}\n", name, st.backlog_messages_count, st.outstanding_messages_count, st.topic_name)),
                        _ => out.push_str(&format!("stats {}: stuck\n", name)),
                    }
                }
            }
        }
        let mut regs: Vec<String> = reg.entries().into_iter().map(|(n, c)| format!("{}->{}", n, c.endpoint)).collect();
        regs.sort();
        out.push_str(&format!("push registry: {:?}\n", regs));
        self.sh.lock().unwrap().push(EvKind::Snapshot { state: out });
    }

    /// Record the stats of every known subscription (no clock movement).
    async fn qp(&mut self) {
        let (_, sm, _) = self.app.verif_parts();
        let mut stats = Vec::new();
        for name in self.known_subs.clone() {
            let parsed = SubscriptionName::try_parse(&name);
            let sub = parsed.and_then(|n| sm.get_subscription(&n).ok());
            match sub {
                None => stats.push(SubStat {
                    name,
                    present: false,
                    stuck: false,
                    backlog: 0,
                    outstanding: 0,
                    topic: String::new(),
                }),
                Some(sub) => {
                    let fut = sub.get_stats();
                    tokio::pin!(fut);
                    let mut res = None;
                    for _ in 0..400 {
                        if let std::task::Poll::Ready(r) = futures::poll!(fut.as_mut()) {
                            res = Some(r);
                            break;
                        }
                        tokio::task::yield_now().await;
                    }
                    match res {
                        Some(Ok(st)) => stats.push(SubStat {
                            name,
                            present: true,
                            stuck: false,
                            backlog: st.backlog_messages_count,
                            outstanding: st.outstanding_messages_count,
                            topic: st.topic_name.to_string(),
                        }),
                        _ => stats.push(SubStat {
                            name,
                            present: true,
                            stuck: true,
                            backlog: 0,
                            outstanding: 0,
                            topic: String::new(),
                        }),
                    }
                }
            }
        }
        let stalled = deltio::verif::stalled_count();
        self.sh.lock().unwrap().push(EvKind::Qp { stats, stalled });
    }

    async fn pull_all(&mut self, op: usize, sub: String, ack: bool) {
        let mut got: Vec<String> = Vec::new();
        for _ in 0..200 {
            let call = self
                .run_call(op, Req::Pull { sub: sub.clone(), max: 1000, ri: true }, vec![], false)
                .await;
            match self.outcome(call) {
                Some(Outcome::Pulled(r)) if !r.is_empty() => {
                    got.extend(r.iter().map(|x| x.ack_id.clone()));
                }
                Some(Outcome::Pulled(_)) => {
                    self.sh
                        .lock()
                        .unwrap()
                        .push(EvKind::PullAllEnd { sub: sub.clone(), call });
                    break;
                }
                _ => break,
            }
        }
        if ack && !got.is_empty() {
            for chunk in got.chunks(1000) {
                self.run_call(op, Req::Ack { sub: sub.clone(), ack_ids: chunk.to_vec() }, vec![], false)
                    .await;
            }
        }
    }

    async fn walk(&mut self, op: usize, kind: u8, p: u8, t: T, size: i32) {
        let mut token = String::new();
        for _ in 0..3000 {
            let req = match kind {
                0 => Req::ListTopics { project: project_name(p), size, token: token.clone() },
                1 => Req::ListSubs { project: project_name(p), size, token: token.clone() },
                _ => Req::ListTopicSubs { topic: t.name(), size, token: token.clone() },
            };
            let call = self.run_call(op, req, vec![], false).await;
            let next = match self.outcome(call) {
                Some(Outcome::TopicList { next, .. }) => next,
                Some(Outcome::SubList { next, .. }) => next,
                Some(Outcome::NameList { next, .. }) => next,
                _ => break,
            };
            if next.is_empty() {
                break;
            }
            token = next;
        }
    }

    fn open_stream(&mut self, op: usize, sub: String, max_out: i64) {
        let call = self.new_call(op, Req::StreamOpen { sub: sub.clone(), max_out });
        let (tx, rx) = mpsc::unbounded_channel::<StreamingPullRequest>();
        let _ = tx.send(StreamingPullRequest {
            subscription: sub.clone(),
            max_outstanding_messages: max_out,
            stream_ack_deadline_seconds: 10,
            ..Default::default()
        });
        let mut s = self.s.clone();
        let sh = self.sh.clone();
        let done = self.done.clone();
        let subn = sub.clone();
        let handle = tokio::spawn(async move {
            let stream = tokio_stream::wrappers::UnboundedReceiverStream::new(rx);
            match s.streaming_pull(stream).await {
                Err(e) => {
                    Interp::finish(&sh, call, status(e));
                    done.notify_waiters();
                }
                Ok(resp) => {
                    Interp::finish(&sh, call, Outcome::StreamOpened);
                    done.notify_waiters();
                    let mut st = resp.into_inner();
                    loop {
                        match st.message().await {
                            Ok(Some(m)) => {
                                let recvs: Vec<Recv> = m.received_messages.iter().map(to_recv).collect();
                                let mut g = sh.lock().unwrap();
                                let now = g.now();
                                g.note_recvs(&subn, &recvs, now);
                                g.push(EvKind::StreamMsg { call, recvs });
                            }
                            Ok(None) => {
                                sh.lock().unwrap().push(EvKind::StreamEnd { call, code: None });
                                break;
                            }
                            Err(e) => {
                                sh.lock()
                                    .unwrap()
                                    .push(EvKind::StreamEnd { call, code: Some(e.code() as i32) });
                                break;
                            }
                        }
                    }
                    done.notify_waiters();
                }
            }
        });
        self.streams.push(StreamH { call, sub, tx: Some(tx), handle });
    }

    fn abort_call(&mut self, call: CallId) {
        if let Some(pos) = self.pending.iter().position(|p| p.call == call) {
            let p = self.pending.remove(pos);
            let mut sh = self.sh.lock().unwrap();
            if sh.trace.calls[call].done.is_none() {
                p.handle.abort();
                let (idx, t) = sh.push(EvKind::Aborted { call });
                sh.trace.calls[call].aborted = Some((idx, t));
                sh.in_flight -= 1;
            }
        }
    }

    async fn goto(&mut self, sub: &str, d: u16, delta_us: i64) {
        self.goto_impl(sub, Some(d), 0, delta_us).await
    }

    async fn goto_impl(&mut self, sub: &str, d: Option<u16>, back: u8, delta_us: i64) {
        let target = {
            let sh = self.sh.lock().unwrap();
            let l = match sh.deliveries.get(sub) {
                Some(l) if !l.is_empty() => l,
                _ => return,
            };
            let del = match d {
                Some(d) => &l[l.len() - 1 - pick(d, l.len())],
                None => &l[l.len() - 1 - (back as usize).min(l.len() - 1)],
            };
            let reference = match d {
                Some(_) => del.nominal_deadline as i128,
                // the deadline as the server rounds it
                None => {
                    let nominal = sh.t0 + Duration::from_nanos(del.nominal_deadline);
                    AckDeadline::new(&nominal).time().checked_duration_since(sh.t0).map(|x| x.as_nanos() as i128).unwrap_or(del.nominal_deadline as i128)
                }
            };
            // (a deadline centuries away - ack deadlines of 68 years chained by probes - is not visited)
            if del.nominal_deadline > (1u64 << 62) {
                return;
            }
            let base = reference + delta_us as i128 * 1000;
            if base <= sh.now() as i128 {
                return;
            }
            base as u64
        };
        let t0 = self.sh.lock().unwrap().t0;
        let target_i = t0 + Duration::from_nanos(target);
        let now = Instant::now();
        if target_i > now + Duration::from_millis(3) {
            tokio::time::sleep_until(target_i - Duration::from_millis(2)).await;
        }
        drain_now().await;
        let now = Instant::now();
        if target_i > now {
            tokio::time::advance(target_i - now).await;
        }
        drain_now().await;
        self.gc();
        self.sh.lock().unwrap().push(EvKind::Clock);
    }

    pub async fn step(&mut self, i: usize, op: &Op) {
        match op {
            Op::CreateTopic { t, a } => {
                self.note_names(None, Some(&t.name()));
                self.run_call(i, Req::CreateTopic { name: t.name() }, vec![], *a).await;
            }
            Op::DeleteTopic { t, a } => {
                self.note_names(None, Some(&t.name()));
                self.run_call(i, Req::DeleteTopic { name: t.name() }, vec![], *a).await;
            }
            Op::GetTopic { t, a } => {
                self.run_call(i, Req::GetTopic { name: t.name() }, vec![], *a).await;
            }
            Op::CreateSub { s, t, dl, push, a } => {
                self.note_names(Some(&s.name()), Some(&t.name()));
                let push = push_variant(*push);
                self.run_call(
                    i,
                    Req::CreateSub { name: s.name(), topic: t.name(), dl: *dl, push },
                    vec![],
                    *a,
                )
                .await;
            }
            Op::DeleteSub { s, a } => {
                self.note_names(Some(&s.name()), None);
                self.run_call(i, Req::DeleteSub { name: s.name() }, vec![], *a).await;
            }
            Op::GetSub { s, a } => {
                self.run_call(i, Req::GetSub { name: s.name() }, vec![], *a).await;
            }
            Op::ListTopics { p, size, a } => {
                self.run_call(
                    i,
                    Req::ListTopics { project: project_name(*p), size: *size, token: String::new() },
                    vec![],
                    *a,
                )
                .await;
            }
            Op::ListSubs { p, size, a } => {
                self.run_call(
                    i,
                    Req::ListSubs { project: project_name(*p), size: *size, token: String::new() },
                    vec![],
                    *a,
                )
                .await;
            }
            Op::ListTopicSubs { t, size, a } => {
                self.run_call(
                    i,
                    Req::ListTopicSubs { topic: t.name(), size: *size, token: String::new() },
                    vec![],
                    *a,
                )
                .await;
            }
            Op::Walk { kind, p, t, size } => self.walk(i, *kind % 3, *p, *t, *size).await,
            Op::PublishMany { t, n, a } => {
                let (req, msgs) = self.build_publish(t.name(), *n, &Payload::plain());
                self.run_call(i, req, msgs, *a).await;
            }
            Op::Publish { t, n, payload, a } => {
                let (req, msgs) = self.build_publish(t.name(), *n as u32, payload);
                self.run_call(i, req, msgs, *a).await;
            }
            Op::Pull { s, max, ri, a } => {
                self.note_names(Some(&s.name()), None);
                self.run_call(i, Req::Pull { sub: s.name(), max: *max, ri: *ri }, vec![], *a).await;
            }
            Op::PullAll { s } => {
                self.note_names(Some(&s.name()), None);
                self.pull_all(i, s.name(), false).await
            }
            Op::Ack { s, refs, a } => {
                let ack_ids = self.resolve_refs(&s.name(), refs);
                if ack_ids.is_empty() && !refs.is_empty() {
                    self.sh.lock().unwrap().push(EvKind::Skipped { op: i });
                    return;
                }
                self.run_call(i, Req::Ack { sub: s.name(), ack_ids }, vec![], *a).await;
            }
            Op::Modify { s, refs, secs, a } => {
                let ack_ids = self.resolve_refs(&s.name(), refs);
                if ack_ids.is_empty() && !refs.is_empty() {
                    self.sh.lock().unwrap().push(EvKind::Skipped { op: i });
                    return;
                }
                self.run_call(i, Req::Modify { sub: s.name(), ack_ids, secs: *secs }, vec![], *a)
                    .await;
            }
            Op::StreamOpen { s, max_out } => {
                self.note_names(Some(&s.name()), None);
                self.open_stream(i, s.name(), *max_out as i64);
                // let the open reach the handler
                yields(4).await;
            }
            Op::StreamSend { k, acks, mods } => {
                let live: Vec<usize> =
                    (0..self.streams.len()).filter(|j| self.streams[*j].tx.is_some()).collect();
                if live.is_empty() {
                    self.sh.lock().unwrap().push(EvKind::Skipped { op: i });
                    return;
                }
                let j = live[*k as usize % live.len()];
                let sub = self.streams[j].sub.clone();
                let acks = self.resolve_refs(&sub, acks);
                let mods: Vec<(String, i32)> = mods
                    .iter()
                    .filter_map(|(r, n)| self.resolve_ref(&sub, r).map(|x| (x, *n)))
                    .collect();
                if acks.is_empty() && mods.is_empty() {
                    self.sh.lock().unwrap().push(EvKind::Skipped { op: i });
                    return;
                }
                let call = self.streams[j].call;
                self.sh.lock().unwrap().push(EvKind::StreamSend {
                    call,
                    acks: acks.clone(),
                    mods: mods.clone(),
                });
                let _ = self.streams[j].tx.as_ref().unwrap().send(StreamingPullRequest {
                    ack_ids: acks,
                    modify_deadline_ack_ids: mods.iter().map(|m| m.0.clone()).collect(),
                    modify_deadline_seconds: mods.iter().map(|m| m.1).collect(),
                    ..Default::default()
                });
            }
            Op::StreamCloseSend { k } => {
                let live: Vec<usize> =
                    (0..self.streams.len()).filter(|j| self.streams[*j].tx.is_some()).collect();
                if live.is_empty() {
                    return;
                }
                let j = live[*k as usize % live.len()];
                self.streams[j].tx = None;
                let call = self.streams[j].call;
                self.sh.lock().unwrap().push(EvKind::StreamCloseSend { call });
            }
            Op::StreamDrop { k } => {
                if self.streams.is_empty() {
                    return;
                }
                let j = *k as usize % self.streams.len();
                self.drop_stream(j);
                yields(2).await;
            }
            Op::Tick { n } => yields(*n as usize).await,
            Op::Settle => self.settle().await,
            Op::Advance { ms } => {
                tokio::time::sleep(Duration::from_millis(*ms)).await;
                self.gc();
                self.sh.lock().unwrap().push(EvKind::Clock);
            }
            Op::GoTo { s, d, delta_us } => self.goto(&s.name(), *d, *delta_us).await,
            Op::GoToActual { s, back, delta_us } => {
                self.goto_impl(&s.name(), None, *back, *delta_us).await;
            }
            Op::Abort { c } => {
                self.gc();
                if self.pending.is_empty() {
                    return;
                }
                let idx = self.pending.len() - 1 - (*c as usize % self.pending.len());
                let call = self.pending[idx].call;
                self.abort_call(call);
                yields(1).await;
            }
            Op::Burst { kind, s, t, n } => {
                self.note_names(Some(&s.name()), Some(&t.name()));
                for j in 0..*n {
                    match kind {
                        0 => {
                            self.spawn_call(i, Req::Pull { sub: s.name(), max: 1, ri: false }, vec![]);
                        }
                        1 => {
                            self.spawn_call(i, Req::Pull { sub: s.name(), max: 1, ri: true }, vec![]);
                        }
                        2 => {
                            self.spawn_call(
                                i,
                                Req::Ack { sub: s.name(), ack_ids: vec![format!("{}", 2_000_000 + j as u32)] },
                                vec![],
                            );
                        }
                        3 => {
                            self.spawn_call(i, Req::GetSub { name: s.name() }, vec![]);
                        }
                        4 => {
                            let (req, msgs) = self.build_publish(t.name(), 1, &Payload::plain());
                            self.spawn_call(i, req, msgs);
                        }
                        5 => {
                            self.spawn_call(
                                i,
                                Req::ListTopicSubs { topic: t.name(), size: 0, token: String::new() },
                                vec![],
                            );
                        }
                        8 => {
                            // status reads with a real nack in the middle of them
                            if j == 3 {
                                let ack_ids = self.resolve_refs(&s.name(), &[AckRef::Recent(0), AckRef::Recent(30_000)]);
                                self.spawn_call(i, Req::Modify { sub: s.name(), ack_ids, secs: 0 }, vec![]);
                            } else {
                                self.spawn_call(i, Req::GetSub { name: s.name() }, vec![]);
                            }
                        }
                        7 => {
                            if self.streams.len() < 40 {
                                self.open_stream(i, s.name(), 10);
                            }
                        }
                        _ => {
                            self.spawn_call(
                                i,
                                Req::Modify {
                                    sub: s.name(),
                                    ack_ids: vec![format!("{}", 3_000_000 + j as u32)],
                                    secs: 10,
                                },
                                vec![],
                            );
                        }
                    }
                }
            }
            Op::PollDrop { op, k, settle_between } => {
                self.poll_drop(i, op, *k, *settle_between).await;
            }
            Op::ListTok { kind, p, t, size, tok } => {
                let token = tok.render();
                let req = match kind % 3 {
                    0 => Req::ListTopics { project: project_name(*p), size: *size, token },
                    1 => Req::ListSubs { project: project_name(*p), size: *size, token },
                    _ => Req::ListTopicSubs { topic: t.name(), size: *size, token },
                };
                self.run_call(i, req, vec![], false).await;
            }
            Op::Raw { req, a } => {
                match req {
                    Req::Publish { .. } | Req::StreamOpen { .. } => {}
                    _ => {
                        self.run_call(i, req.clone(), vec![], *a).await;
                    }
                }
            }
            Op::RawPublish { topic, n, a } => {
                let (req, msgs) = self.build_publish(topic.clone(), *n as u32, &Payload::plain());
                self.run_call(i, req, msgs, *a).await;
            }
            Op::StreamOpenRaw { sub, max_out } => {
                self.open_stream(i, sub.clone(), *max_out);
                yields(4).await;
            }
            Op::StreamRaw { k, subscription, max_out, max_bytes, acks, mod_ids, mod_secs } => {
                let live: Vec<usize> = (0..self.streams.len()).filter(|j| self.streams[*j].tx.is_some()).collect();
                if live.is_empty() {
                    self.sh.lock().unwrap().push(EvKind::Skipped { op: i });
                    return;
                }
                let j = live[*k as usize % live.len()];
                let call = self.streams[j].call;
                // recorded as a control message; ids that do not pair up are kept as sent
                let mods: Vec<(String, i32)> = mod_ids.iter().cloned().zip(mod_secs.iter().cloned()).collect();
                self.sh.lock().unwrap().push(EvKind::StreamSendRaw {
                    call,
                    subscription: subscription.clone(),
                    max_out: *max_out,
                    max_bytes: *max_bytes,
                    acks: acks.clone(),
                    mod_ids: mod_ids.clone(),
                    mod_secs: mod_secs.clone(),
                });
                let _ = mods;
                let _ = self.streams[j].tx.as_ref().unwrap().send(StreamingPullRequest {
                    subscription: subscription.clone(),
                    max_outstanding_messages: *max_out,
                    max_outstanding_bytes: *max_bytes,
                    ack_ids: acks.clone(),
                    modify_deadline_ack_ids: mod_ids.clone(),
                    modify_deadline_seconds: mod_secs.clone(),
                    ..Default::default()
                });
            }
            Op::Snapshot => {
                self.snapshot().await;
            }
            Op::ReleaseStalls => {
                self.gate.notify_waiters();
                yields(2).await;
            }
            Op::CheckLists => {
                for t in self.known_topics.clone() {
                    self.run_call(i, Req::ListTopicSubs { topic: t, size: 1000, token: String::new() }, vec![], false)
                        .await;
                }
                for s in self.known_subs.clone() {
                    self.run_call(i, Req::GetSub { name: s }, vec![], false).await;
                }
            }
        }
    }

    fn drop_stream(&mut self, j: usize) {
        let st = self.streams.remove(j);
        st.handle.abort();
        let mut sh = self.sh.lock().unwrap();
        let ended = sh
            .trace
            .events
            .iter()
            .any(|e| matches!(&e.kind, EvKind::StreamEnd { call, .. } if *call == st.call));
        let failed_open = matches!(&sh.trace.calls[st.call].done, Some((_, _, Outcome::Status { .. })));
        if !ended && !failed_open {
            let (idx, t) = sh.push(EvKind::Aborted { call: st.call });
            sh.trace.calls[st.call].aborted = Some((idx, t));
        }
        if sh.trace.calls[st.call].done.is_none() {
            sh.in_flight -= 1;
        }
    }

    /// C16: build the call future, poll it `k` times with scheduler activity in between,
    /// then drop it at whatever suspension point it has reached.
    async fn poll_drop(&mut self, i: usize, op: &Op, k: u8, settle_between: bool) {
        let (req, msgs) = match self.simple_req(op) {
            Some(x) => x,
            None => return,
        };
        let call = self.new_call(i, req.clone());
        let mut fut = exec(req, msgs, self.p.clone(), self.s.clone());
        let mut polls = 0u32;
        let mut out = None;
        for n in 0..k {
            if n > 0 {
                // scheduler activity between two polls; none after the last poll, so that the
                // future is dropped exactly at the suspension point it has reached
                if settle_between {
                    tokio::time::sleep(Duration::from_millis(1)).await;
                } else {
                    tokio::task::yield_now().await;
                }
            }
            polls += 1;
            if let std::task::Poll::Ready(o) = futures::poll!(&mut fut) {
                out = Some(o);
                break;
            }
        }
        match out {
            Some(o) => {
                self.sh.lock().unwrap().trace.calls[call].polls = Some(polls);
                Interp::finish(&self.sh, call, o);
            }
            None => {
                drop(fut);
                let mut sh = self.sh.lock().unwrap();
                let (idx, t) = sh.push(EvKind::Aborted { call });
                sh.trace.calls[call].aborted = Some((idx, t));
                sh.trace.calls[call].polls = Some(polls);
                sh.in_flight -= 1;
            }
        }
    }

    /// The request a simple (non-macro) op stands for.
    fn simple_req(&mut self, op: &Op) -> Option<(Req, Vec<PubsubMessage>)> {
        Some(match op {
            Op::CreateTopic { t, .. } => {
                self.note_names(None, Some(&t.name()));
                (Req::CreateTopic { name: t.name() }, vec![])
            }
            Op::DeleteTopic { t, .. } => (Req::DeleteTopic { name: t.name() }, vec![]),
            Op::GetTopic { t, .. } => (Req::GetTopic { name: t.name() }, vec![]),
            Op::CreateSub { s, t, dl, push, .. } => {
                self.note_names(Some(&s.name()), Some(&t.name()));
                (
                    Req::CreateSub { name: s.name(), topic: t.name(), dl: *dl, push: push_variant(*push) },
                    vec![],
                )
            }
            Op::DeleteSub { s, .. } => (Req::DeleteSub { name: s.name() }, vec![]),
            Op::GetSub { s, .. } => (Req::GetSub { name: s.name() }, vec![]),
            Op::ListTopics { p, size, .. } => (
                Req::ListTopics { project: project_name(*p), size: *size, token: String::new() },
                vec![],
            ),
            Op::ListSubs { p, size, .. } => (
                Req::ListSubs { project: project_name(*p), size: *size, token: String::new() },
                vec![],
            ),
            Op::ListTopicSubs { t, size, .. } => {
                (Req::ListTopicSubs { topic: t.name(), size: *size, token: String::new() }, vec![])
            }
            Op::Publish { t, n, payload, .. } => self.build_publish(t.name(), *n as u32, payload),
            Op::PublishMany { t, n, .. } => self.build_publish(t.name(), *n, &Payload::plain()),
            Op::Pull { s, max, ri, .. } => {
                self.note_names(Some(&s.name()), None);
                (Req::Pull { sub: s.name(), max: *max, ri: *ri }, vec![])
            }
            Op::Ack { s, refs, .. } => {
                let ack_ids = self.resolve_refs(&s.name(), refs);
                (Req::Ack { sub: s.name(), ack_ids }, vec![])
            }
            Op::Modify { s, refs, secs, .. } => {
                let ack_ids = self.resolve_refs(&s.name(), refs);
                (Req::Modify { sub: s.name(), ack_ids, secs: *secs }, vec![])
            }
            _ => return None,
        })
    }

    async fn finale(&mut self, n_ops: usize) {
        self.settle().await;
        // nothing stays stalled beyond the generated history: from here on a stall point lets
        // its task pass, and everything that is held now is released
        deltio::verif::set_stall_gate(None);
        self.gate.notify_waiters();
        yields(2).await;
        if self.cfg.horizon {
            // streams never terminate by themselves; keeping them open would only make them
            // cycle through redeliveries for the whole hour
            while !self.streams.is_empty() {
                self.drop_stream(0);
            }
            yields(4).await;
            tokio::time::sleep(Duration::from_secs(3600)).await;
            self.gc();
            let pending: Vec<CallId> = self.pending.iter().map(|p| p.call).collect();
            self.sh.lock().unwrap().push(EvKind::Horizon { pending });
        }
        if self.cfg.drain {
            // stop everything that is still pending or consuming
            let pend: Vec<CallId> = self.pending.iter().map(|p| p.call).collect();
            for c in pend {
                self.abort_call(c);
            }
            while !self.streams.is_empty() {
                self.drop_stream(0);
            }
            yields(8).await;
            self.sh.lock().unwrap().push(EvKind::DrainStart);
            self.settle().await;
            let subs = self.known_subs.clone();
            for round in 0..2 {
                for s in &subs {
                    // give back every delivery this harness may still hold
                    let ids: Vec<String> = {
                        let sh = self.sh.lock().unwrap();
                        sh.deliveries.get(s).map(|l| l.iter().map(|d| d.ack_id.clone()).collect()).unwrap_or_default()
                    };
                    if round == 0 {
                        for chunk in ids.chunks(1000) {
                            let c = self
                                .run_call(
                                    n_ops,
                                    Req::Modify { sub: s.clone(), ack_ids: chunk.to_vec(), secs: 0 },
                                    vec![],
                                    false,
                                )
                                .await;
                            if !matches!(self.outcome(c), Some(Outcome::Empty)) {
                                break;
                            }
                        }
                    }
                }
                if round == 1 {
                    // leases handed to abandoned consumers end by themselves
                    tokio::time::sleep(Duration::from_secs(4000)).await;
                    self.sh.lock().unwrap().push(EvKind::Clock);
                }
                for s in &subs {
                    self.pull_all(n_ops, s.clone(), true).await;
                }
            }
            self.settle().await;
        }
    }
}

/// Push config variants (0 = none). Endpoints point at a port nothing listens on; the
/// push loop is not started in SIM anyway.
pub fn push_variant(v: u8) -> Option<PushReq> {
    match v {
        0 => None,
        1 => Some(PushReq { endpoint: "http://127.0.0.1:9/push".into(), attrs: vec![], oidc: None }),
        2 => Some(PushReq {
            endpoint: "  https://example.invalid/x?y=1  ".into(),
            attrs: vec![("x-goog-version".into(), "v1".into())],
            oidc: Some(("svc@example.invalid".into(), "aud".into())),
        }),
        3 => Some(PushReq { endpoint: "ftp://example.invalid".into(), attrs: vec![], oidc: None }),
        _ => Some(PushReq { endpoint: "".into(), attrs: vec![], oidc: None }),
    }
}

static PANICS: Mutex<Vec<String>> = Mutex::new(Vec::new());

/// Wall-clock start (ms since process start, +1) of the case currently being simulated; 0 = none.
static CASE_STARTED: std::sync::atomic::AtomicU64 = std::sync::atomic::AtomicU64::new(0);
static PROCESS_START: std::sync::OnceLock<std::time::Instant> = std::sync::OnceLock::new();

pub const EXIT_NEVER_QUIESCENT: i32 = 98;

/// Starts a watchdog thread. Under the paused clock a simulated case needs milliseconds of
/// real time; one that is still running after `limit_s` seconds is spinning: some server task
/// keeps itself runnable forever, the system never becomes quiescent and virtual time cannot
/// advance. The process then exits with EXIT_NEVER_QUIESCENT and the supervisor takes the
/// in-flight case as the failing input.
pub fn install_watchdog(limit_s: u64) {
    let start = *PROCESS_START.get_or_init(std::time::Instant::now);
    std::thread::spawn(move || loop {
        std::thread::sleep(std::time::Duration::from_millis(200));
        let began = CASE_STARTED.load(std::sync::atomic::Ordering::SeqCst);
        if began != 0 {
            let now = start.elapsed().as_millis() as u64 + 1;
            if now.saturating_sub(began) > limit_s * 1000 {
                eprintln!("watchdog: the simulated system did not become quiescent within {} s of real time", limit_s);
                std::process::exit(EXIT_NEVER_QUIESCENT);
            }
        }
    });
}

fn arm_watchdog() {
    let start = *PROCESS_START.get_or_init(std::time::Instant::now);
    CASE_STARTED.store(start.elapsed().as_millis() as u64 + 1, std::sync::atomic::Ordering::SeqCst);
}
fn disarm_watchdog() {
    CASE_STARTED.store(0, std::sync::atomic::Ordering::SeqCst);
}

pub fn install_panic_hook() {
    std::panic::set_hook(Box::new(|info| {
        let s = format!("{}", info);
        let mut s: String = s.chars().take(300).collect();
        s = s.replace('\n', " ");
        eprintln!("panic: {}", s);
        PANICS.lock().unwrap().push(s);
    }));
}

/// Forces the process-wide rounding EPOCH of deltio to be initialised now.
pub fn init_epoch() {
    let _ = AckDeadline::new(&Instant::now());
}

/// Moves the paused clock so that `AckDeadline::new(now) - now` is exactly `phase_us` µs.
async fn normalise_phase(phase_us: u32) -> bool {
    let measure = || {
        let now = Instant::now();
        AckDeadline::new(&now).time().checked_duration_since(now).map(|d| d.as_nanos() as u64)
    };
    // make sure the current phase is at least 1 µs so that the residue can be read
    let mut d = measure();
    if d.is_none() || d == Some(0) || d.unwrap() < 1000 {
        tokio::time::advance(Duration::from_micros(2)).await;
        d = measure();
    }
    let d = match d {
        Some(d) => d,
        None => return false,
    };
    let phase = (d + 999) / 1000; // µs
    let residue = phase * 1000 - d; // ns
    if residue > 0 {
        tokio::time::advance(Duration::from_nanos(1000 - residue)).await;
    }
    let phase_now = if residue > 0 { (phase + 1) % 100_000 } else { phase % 100_000 };
    let want = phase_us as u64 % 100_000;
    let delta = (want + 100_000 - phase_now) % 100_000;
    if delta > 0 {
        tokio::time::advance(Duration::from_micros(delta)).await;
    }
    let now = Instant::now();
    let got = AckDeadline::new(&now).time().checked_duration_since(now).map(|d| d.as_nanos() as u64);
    got == Some(want * 1000)
}

pub fn run_case(case: &Case, cfg: &RunCfg) -> Trace {
    PANICS.lock().unwrap().clear();
    arm_watchdog();
    let mut seed_bytes = case.sched_seed.to_le_bytes().to_vec();
    seed_bytes.extend_from_slice(b"deltio-verif");
    let rt = tokio::runtime::Builder::new_current_thread()
        .enable_time()
        .start_paused(true)
        .rng_seed(tokio::runtime::RngSeed::from_bytes(&seed_bytes))
        // one case in three lets the time driver run between any two task polls, so that a
        // timer that has become due can fire before a task that was woken earlier is polled
        // (otherwise timers only fire when nothing is runnable)
        .event_interval(if case.sched_seed % 3 == 0 { 1 } else { 61 })
        .build()
        .unwrap();
    // schedule points
    let hits = Arc::new(Mutex::new(vec![0u32; POINT_NAMES.len()]));
    {
        let specs = case.points.clone();
        let hits = hits.clone();
        deltio::verif::install_controller(Box::new(move |name| {
            let idx = match POINT_NAMES.iter().position(|n| *n == name) {
                Some(i) => i,
                None => return 0,
            };
            let mut h = hits.lock().unwrap();
            let nth = h[idx];
            h[idx] += 1;
            specs
                .iter()
                .filter(|s| s.point as usize % POINT_NAMES.len() == idx && s.nth as u32 == nth)
                .map(|s| if s.yields == 255 { u32::MAX } else { s.yields as u32 })
                .max()
                .unwrap_or(0)
        }));
    }
    deltio::verif::set_fanout_seed(Some(case.fanout_seed));
    let cfg2 = cfg.clone();
    let trace = rt.block_on(async move {
        let phase_ok = normalise_phase(case.phase_us).await;
        let gate = Arc::new(Notify::new());
        deltio::verif::set_stall_gate(Some(gate.clone()));
        let app = Arc::new(Deltio::new());
        let routes: Routes = app.server_builder().into_service();
        let sh = Arc::new(Mutex::new(Shared {
            t0: Instant::now(),
            trace: Trace { phase_ok, ..Default::default() },
            published: HashMap::new(),
            deliveries: HashMap::new(),
            sub_dl: HashMap::new(),
            in_flight: 0,
        }));
        let mut it = Interp {
            sh: sh.clone(),
            // the harness's own client must not reject big answers (4 MiB is tonic's default)
            p: PublisherClient::new(Wire(routes.clone())).max_decoding_message_size(usize::MAX),
            s: SubscriberClient::new(Wire(routes.clone())).max_decoding_message_size(usize::MAX),
            app,
            pending: Vec::new(),
            streams: Vec::new(),
            done: Arc::new(Notify::new()),
            next_mkey: 0,
            known_subs: Vec::new(),
            known_topics: Vec::new(),
            cfg: cfg2,
            gate: gate.clone(),
        };
        for (i, op) in case.ops.iter().enumerate() {
            it.step(i, op).await;
            if it.cfg.qp_each_op && !matches!(op, Op::Settle) {
                it.settle().await;
            }
        }
        it.finale(case.ops.len()).await;
        // stop everything before the runtime goes away
        for p in it.pending.drain(..) {
            p.handle.abort();
        }
        for s in it.streams.drain(..) {
            s.handle.abort();
        }
        let mut g = sh.lock().unwrap();
        std::mem::take(&mut g.trace)
    });
    drop(rt);
    deltio::verif::clear_controller();
    deltio::verif::set_stall_gate(None);
    deltio::verif::set_fanout_seed(None);
    let mut trace = trace;
    trace.point_hits = hits.lock().unwrap().clone();
    trace.panics = PANICS.lock().unwrap().clone();
    disarm_watchdog();
    trace
}
