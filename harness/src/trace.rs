//! What a run of a case records: every request as sent, every response as received,
//! with a global event order and the measured virtual time of each event.
use serde::{Deserialize, Serialize};

pub type CallId = usize;

/// A request as it was actually sent (references resolved to strings).
#[derive(Clone, Debug, Serialize, Deserialize, PartialEq)]
pub enum Req {
    CreateTopic { name: String },
    DeleteTopic { name: String },
    GetTopic { name: String },
    CreateSub { name: String, topic: String, dl: i32, push: Option<PushReq> },
    DeleteSub { name: String },
    GetSub { name: String },
    ListTopics { project: String, size: i32, token: String },
    ListSubs { project: String, size: i32, token: String },
    ListTopicSubs { topic: String, size: i32, token: String },
    Publish { topic: String, mkeys: Vec<u64> },
    Pull { sub: String, max: i32, ri: bool },
    Ack { sub: String, ack_ids: Vec<String> },
    Modify { sub: String, ack_ids: Vec<String>, secs: i32 },
    StreamOpen { sub: String, max_out: i64 },
}

#[derive(Clone, Debug, Serialize, Deserialize, PartialEq)]
pub struct PushReq {
    pub endpoint: String,
    pub attrs: Vec<(String, String)>,
    pub oidc: Option<(String, String)>,
}

#[derive(Clone, Debug, Serialize, Deserialize, PartialEq)]
pub struct Recv {
    pub ack_id: String,
    pub msg_id: String,
    /// marker embedded in the data, if the payload kind carries one
    pub marker: Option<u64>,
    pub data_len: usize,
    pub data_hash: u64,
    pub attrs: Vec<(String, String)>,
    pub publish_time: (i64, i32),
}

#[derive(Clone, Debug, Serialize, Deserialize, PartialEq)]
pub struct SubView {
    pub name: String,
    pub topic: String,
    pub dl: i32,
    pub push: Option<PushReq>,
}

#[derive(Clone, Debug, Serialize, Deserialize, PartialEq)]
pub enum Outcome {
    Status { code: i32, msg: String },
    Empty,
    Topic { name: String },
    Sub(SubView),
    PublishIds(Vec<String>),
    Pulled(Vec<Recv>),
    TopicList { names: Vec<String>, next: String },
    SubList { subs: Vec<SubView>, next: String },
    NameList { names: Vec<String>, next: String },
    StreamOpened,
}

impl Outcome {
    pub fn code(&self) -> i32 {
        match self {
            Outcome::Status { code, .. } => *code,
            _ => 0,
        }
    }
    pub fn is_ok(&self) -> bool {
        self.code() == 0
    }
}

#[derive(Clone, Debug, Serialize, Deserialize, PartialEq)]
pub struct SubStat {
    pub name: String,
    pub present: bool,
    /// the actor did not answer a stats request within a bounded number of scheduler turns
    pub stuck: bool,
    pub backlog: usize,
    pub outstanding: usize,
    pub topic: String,
}

#[derive(Clone, Debug, Serialize, Deserialize, PartialEq)]
pub enum EvKind {
    Invoke { call: CallId },
    Return { call: CallId },
    Aborted { call: CallId },
    StreamMsg { call: CallId, recvs: Vec<Recv> },
    /// code None = the response stream ended without a status (OK)
    StreamEnd { call: CallId, code: Option<i32> },
    StreamSend { call: CallId, acks: Vec<String>, mods: Vec<(String, i32)> },
    StreamCloseSend { call: CallId },
    /// C17: a control message sent with arbitrary fields
    StreamSendRaw { call: CallId, subscription: String, max_out: i64, max_bytes: i64, acks: Vec<String>, mod_ids: Vec<String>, mod_secs: Vec<i32> },
    /// quiescent point: nothing runnable; stats of every known subscription name
    Qp {
        stats: Vec<SubStat>,
        /// tasks the harness currently holds at a stall point (cfg(deltio_verif) hook)
        #[serde(default)]
        stalled: usize,
    },
    /// the harness moved the clock (Advance / GoTo)
    Clock,
    /// end of the generated history, after the one-hour horizon: calls still pending
    Horizon { pending: Vec<CallId> },
    /// beginning of the final drain
    DrainStart,
    /// result of PullAll bookkeeping: the loop on `sub` ended with an empty pull
    PullAllEnd { sub: String, call: CallId },
    /// the interpreter skipped an op (unresolvable reference)
    Skipped { op: usize },
    /// C16/C17: the complete observable state, rendered canonically
    Snapshot { state: String },
}

#[derive(Clone, Debug, Serialize, Deserialize, PartialEq)]
pub struct Ev {
    pub t: u64,
    pub kind: EvKind,
}

#[derive(Clone, Debug, Serialize, Deserialize, PartialEq)]
pub struct CallInfo {
    pub id: CallId,
    pub op: usize,
    pub req: Req,
    pub invoke_idx: usize,
    pub invoke_t: u64,
    pub done: Option<(usize, u64, Outcome)>,
    pub aborted: Option<(usize, u64)>,
    /// polls given to the call future before it was dropped (PollDrop only)
    pub polls: Option<u32>,
}

#[derive(Clone, Debug, Serialize, Deserialize, PartialEq)]
pub struct MsgRec {
    pub mkey: u64,
    pub call: CallId,
    pub idx: usize,
    pub has_marker: bool,
    pub data_len: usize,
    pub data_hash: u64,
    pub attrs: Vec<(String, String)>,
}

#[derive(Clone, Debug, Serialize, Deserialize, PartialEq, Default)]
pub struct Trace {
    pub events: Vec<Ev>,
    pub calls: Vec<CallInfo>,
    pub msgs: Vec<MsgRec>,
    pub panics: Vec<String>,
    pub phase_ok: bool,
    /// hits of each schedule point (by name index)
    pub point_hits: Vec<u32>,
    /// number of times a sender had to wait for mailbox room is not observable directly;
    /// the interpreter records how many calls were in flight at most
    pub max_in_flight: usize,
}

pub fn fnv(data: &[u8]) -> u64 {
    let mut h: u64 = 0xcbf29ce484222325;
    for b in data {
        h ^= *b as u64;
        h = h.wrapping_mul(0x100000001b3);
    }
    h
}
