//! C16: abandoned requests have all-or-nothing effect.
//! Fault enumeration over crash points: the victim request's future is polled k times and
//! dropped; the resulting observable state must equal the state of one of two reference
//! executions of the same history on the same seed: victim completed / victim never sent.
use crate::case::*;
use crate::runner::*;
use crate::sim::{run_case, RunCfg};
use crate::trace::*;
use proptest::prelude::*;
use proptest::test_runner::{Config, RngSeed, TestCaseError, TestError, TestRunner};
use serde::{Deserialize, Serialize};
use serde_json::json;

const S0: S = S { p: 0, i: 0 };
const S1: S = S { p: 0, i: 1 };
const S2: S = S { p: 0, i: 2 };
const T0: T = T { p: 0, i: 0 };
const T1: T = T { p: 0, i: 1 };

#[derive(Clone, Debug, Serialize, Deserialize, PartialEq)]
pub struct C16Case {
    pub sched_seed: u64,
    pub extra_prefix: Vec<Op>,
    /// 0 none, 1 topic mailbox, 2 subscription mailbox, 3 both
    pub sat: u8,
    pub sat_n: u8,
    pub victim: u8,
    pub k: u8,
    pub settle_between: bool,
    /// scheduler ticks between the saturating bursts and the victim's first poll (1 = the
    /// burst's requests have reached the mailboxes, the actors have not drained them yet)
    #[serde(default)]
    pub pre_ticks: u8,
}

#[derive(Clone, Copy, PartialEq, Debug)]
pub enum Mode {
    Abandon,
    Complete,
    Never,
}

pub const VICTIMS: &[&str] = &[
    "CreateTopic", "DeleteTopic", "GetTopic", "CreateSubscription", "DeleteSubscription", "GetSubscription", "ListTopics", "ListSubscriptions", "ListTopicSubscriptions", "Publish", "Pull", "Acknowledge",
    "ModifyAckDeadline(0)", "ModifyAckDeadline(30)", "StreamingPull open", "StreamingPull control message", "CreateSubscription(push)", "CreateSubscription then immediate retry",
    "Publish of 250 messages",
];

fn victim_op(v: u8) -> Option<Op> {
    Some(match v {
        0 => Op::CreateTopic { t: T { p: 0, i: 5 }, a: false },
        1 => Op::DeleteTopic { t: T0, a: false },
        2 => Op::GetTopic { t: T0, a: false },
        3 => Op::CreateSub { s: S { p: 0, i: 5 }, t: T0, dl: 10, push: 0, a: false },
        4 => Op::DeleteSub { s: S1, a: false },
        5 => Op::GetSub { s: S0, a: false },
        6 => Op::ListTopics { p: 0, size: 0, a: false },
        7 => Op::ListSubs { p: 0, size: 0, a: false },
        8 => Op::ListTopicSubs { t: T0, size: 0, a: false },
        9 => Op::Publish { t: T0, n: 2, payload: Payload::plain(), a: false },
        10 => Op::Pull { s: S1, max: 5, ri: true, a: false },
        11 => Op::Ack { s: S0, refs: vec![AckRef::Recent(0)], a: false },
        12 => Op::Modify { s: S0, refs: vec![AckRef::Recent(0)], secs: 0, a: false },
        13 => Op::Modify { s: S0, refs: vec![AckRef::Recent(0)], secs: 30, a: false },
        16 => Op::CreateSub { s: S { p: 0, i: 6 }, t: T0, dl: 10, push: 1, a: false },
        17 => Op::CreateSub { s: S { p: 0, i: 5 }, t: T0, dl: 10, push: 0, a: false },
        18 => Op::PublishMany { t: T0, n: 250, a: false },
        _ => return None,
    })
}

pub fn build(c: &C16Case, mode: Mode) -> (Case, usize) {
    let mut ops = vec![
        Op::CreateTopic { t: T0, a: false },
        Op::CreateTopic { t: T1, a: false },
        Op::CreateSub { s: S0, t: T0, dl: 10, push: 0, a: false },
        Op::CreateSub { s: S1, t: T0, dl: 10, push: 0, a: false },
        Op::CreateSub { s: S2, t: T1, dl: 10, push: 0, a: false },
        Op::Publish { t: T0, n: 3, payload: Payload::plain(), a: false },
        Op::Pull { s: S0, max: 2, ri: true, a: false },
    ];
    ops.extend(c.extra_prefix.iter().cloned());
    ops.push(Op::Settle);
    // saturation: state-neutral requests that fill the mailboxes in the same tick
    if c.sat & 1 != 0 {
        ops.push(Op::Burst { kind: 5, s: S0, t: T0, n: c.sat_n });
    }
    if c.sat & 2 != 0 {
        let target = match c.victim {
            4 | 10 | 14 => S1,
            _ => S0,
        };
        ops.push(Op::Burst { kind: 3, s: target, t: T0, n: c.sat_n });
    }
    if c.pre_ticks > 0 {
        ops.push(Op::Tick { n: c.pre_ticks });
    }
    let v = c.victim % VICTIMS.len() as u8;
    match v {
        14 => {
            // stream open on S1, dropped after k ticks
            if mode != Mode::Never {
                ops.push(Op::StreamOpen { s: S1, max_out: 10 });
                if mode == Mode::Abandon {
                    ops.push(Op::Tick { n: c.k });
                } else {
                    ops.push(Op::Settle);
                }
                ops.push(Op::StreamDrop { k: 0 });
            }
        }
        15 => {
            // control message (ack + extension) on a stream over S1, dropped after k ticks
            ops.push(Op::StreamOpen { s: S1, max_out: 10 });
            ops.push(Op::Settle);
            if mode != Mode::Never {
                ops.push(Op::StreamSend { k: 0, acks: vec![AckRef::Recent(0)], mods: vec![(AckRef::Recent(1), 30)] });
                if mode == Mode::Abandon {
                    ops.push(Op::Tick { n: c.k });
                } else {
                    ops.push(Op::Settle);
                }
            }
            ops.push(Op::StreamDrop { k: 0 });
        }
        _ => {
            let op = victim_op(v).unwrap();
            match mode {
                Mode::Abandon => ops.push(Op::PollDrop { op: Box::new(op), k: c.k, settle_between: c.settle_between }),
                Mode::Complete => ops.push(op),
                Mode::Never => {}
            }
            if v == 17 {
                // the client did not get an answer and asks again at once (in every mode)
                ops.push(Op::CreateSub { s: S { p: 0, i: 5 }, t: T0, dl: 10, push: 0, a: false });
            }
        }
    }
    let tail_start = ops.len();
    ops.push(Op::Settle);
    ops.push(Op::Snapshot);
    // attach probe: one message to every topic, every subscription must be able to obtain it
    for t in [T0, T1, T { p: 0, i: 5 }] {
        ops.push(Op::Publish { t, n: 1, payload: Payload::plain(), a: false });
    }
    for s in [S0, S1, S2, S { p: 0, i: 5 }, S { p: 0, i: 6 }] {
        ops.push(Op::PullAll { s });
    }
    ops.push(Op::Settle);
    ops.push(Op::Snapshot);
    // leases handed to nobody end by themselves
    ops.push(Op::Advance { ms: 30_200 });
    for s in [S0, S1, S2, S { p: 0, i: 5 }, S { p: 0, i: 6 }] {
        ops.push(Op::PullAll { s });
    }
    ops.push(Op::Settle);
    ops.push(Op::Snapshot);
    (Case { sched_seed: c.sched_seed, phase_us: 0, fanout_seed: 0, points: vec![], ops }, tail_start)
}

/// What the tail of a run observed: snapshots and, per probe phase and subscription, how
/// many messages could be pulled.
fn observe(tr: &Trace, tail_start: usize) -> (String, Vec<String>) {
    let mut s = String::new();
    let mut pending = Vec::new();
    for e in &tr.events {
        if let EvKind::Snapshot { state } = &e.kind {
            s.push_str("=== snapshot\n");
            s.push_str(state);
        }
    }
    let mut counts: std::collections::BTreeMap<(usize, String), (usize, i32)> = Default::default();
    for c in &tr.calls {
        if c.op < tail_start {
            continue;
        }
        match &c.done {
            None => pending.push(format!("{:?}", c.req)),
            Some((_, _, out)) => {
                if let Req::Pull { sub, .. } = &c.req {
                    let e = counts.entry((c.op, sub.clone())).or_insert((0, 0));
                    match out {
                        Outcome::Pulled(r) => e.0 += r.len(),
                        o => e.1 = o.code(),
                    }
                }
                if let Req::Publish { topic, .. } = &c.req {
                    s.push_str(&format!("probe publish {} -> code {}\n", topic, out.code()));
                }
            }
        }
    }
    for ((op, sub), (n, code)) in counts {
        s.push_str(&format!("pull-all op+{} {}: {} message(s), code {}\n", op - tail_start, sub, n, code));
    }
    (s, pending)
}

pub fn check(c: &C16Case) -> (Option<(String, String)>, bool, serde_json::Value) {
    let cfg = RunCfg { horizon: false, drain: false, qp_each_op: false };
    let (ca, ta) = build(c, Mode::Abandon);
    let tra = run_case(&ca, &cfg);
    let (oa, pend) = observe(&tra, ta);
    // did the drop really happen inside the handler?
    let inside = tra.calls.iter().any(|x| x.aborted.is_some() && x.polls.map(|p| p >= 1).unwrap_or(false)) || (c.victim % VICTIMS.len() as u8 >= 14 && c.victim % VICTIMS.len() as u8 <= 15);
    let tj = trace_json(&tra);
    if !tra.panics.is_empty() {
        return (Some(("panic".into(), format!("panic while handling an abandoned {}: {:?}", VICTIMS[c.victim as usize % VICTIMS.len()], tra.panics))), inside, tj);
    }
    if !pend.is_empty() {
        return (
            Some(("wedged_after_abandon".into(), format!("after {} was abandoned at poll {}, later requests never complete: {:?}", VICTIMS[c.victim as usize % VICTIMS.len()], c.k, pend.iter().take(4).collect::<Vec<_>>()))),
            inside,
            tj,
        );
    }
    let (cc, tc) = build(c, Mode::Complete);
    let (oc, _) = observe(&run_case(&cc, &cfg), tc);
    if oa == oc {
        return (None, inside, tj);
    }
    let (cn, tn) = build(c, Mode::Never);
    let (on, _) = observe(&run_case(&cn, &cfg), tn);
    if oa == on {
        return (None, inside, tj);
    }
    let diff = |a: &str, b: &str| -> String {
        let (la, lb): (Vec<&str>, Vec<&str>) = (a.lines().collect(), b.lines().collect());
        let mut out = String::new();
        for i in 0..la.len().max(lb.len()) {
            let (x, y) = (la.get(i).copied().unwrap_or(""), lb.get(i).copied().unwrap_or(""));
            if x != y {
                out.push_str(&format!("    abandoned: {}\n    reference: {}\n", x.chars().take(300).collect::<String>(), y.chars().take(300).collect::<String>()));
                if out.len() > 1500 {
                    break;
                }
            }
        }
        out
    };
    (
        Some((
            "abandoned_request_partial_effect".into(),
            format!(
                "{} abandoned after {} poll(s) (saturation {}, settle between polls: {}) leaves a state that is neither that of the completed request nor that of the request never sent.\n  versus completed:\n{}  versus never sent:\n{}",
                VICTIMS[c.victim as usize % VICTIMS.len()],
                c.k,
                c.sat,
                c.settle_between,
                diff(&oa, &oc),
                diff(&oa, &on)
            ),
        )),
        inside,
        tj,
    )
}

fn arb_prefix_op() -> BoxedStrategy<Op> {
    prop_oneof![
        3 => (1u8..3).prop_map(|n| Op::Publish { t: T0, n, payload: Payload::plain(), a: false }),
        2 => Just(Op::Pull { s: S1, max: 1, ri: true, a: false }),
        1 => Just(Op::Pull { s: S0, max: 1, ri: true, a: false }),
        1 => Just(Op::Modify { s: S0, refs: vec![AckRef::Recent(0)], secs: 0, a: false }),
        1 => Just(Op::Ack { s: S0, refs: vec![AckRef::Own(0)], a: false }),
        1 => Just(Op::Publish { t: T1, n: 1, payload: Payload::plain(), a: false }),
        1 => Just(Op::Advance { ms: 5_000 }),
    ]
    .boxed()
}

fn arb_c16() -> BoxedStrategy<C16Case> {
    (any::<u64>(), proptest::collection::vec(arb_prefix_op(), 0..4), 0u8..4, 17u8..41, 0u8..VICTIMS.len() as u8, 0u8..14, any::<bool>(), 0u8..4)
        .prop_map(|(sched_seed, extra_prefix, sat, sat_n, victim, k, settle_between, pre_ticks)| C16Case { sched_seed, extra_prefix, sat, sat_n, victim, k, settle_between, pre_ticks })
        .boxed()
}

pub fn c16_check(ctx: &WorkerCtx, out: &mut WorkerOut) {
    // (1) enumeration: every victim kind x every poll count 0..=12 x every saturation x both pacing modes
    let mut g = 0u64;
    let mut evals = 0u64;
    let seeds: u64 = match ctx.tier {
        Tier::Quick => 1,
        Tier::Thorough => 12,
    };
    for seed in 0..seeds {
        for victim in 0..VICTIMS.len() as u8 {
            for k in 0..=12u8 {
                for sat in 0..4u8 {
                    // the size of the saturating burst decides whether the mailbox is still full
                    // when the victim is polled (an actor drains up to 16 requests per turn): 17
                    // fills it once, 40 and 72 keep it full over one and three turns
                    for (sb, pre_ticks, sat_n) in [(false, 0u8, 17u8), (true, 0, 27), (false, 1, 17), (false, 1, 40), (true, 1, 40), (false, 2, 40), (false, 2, 72), (false, 3, 72)] {
                        if sat == 0 && sat_n != 17 && sat_n != 27 {
                            continue; // no saturation: the burst size does not matter
                        }
                        g += 1;
                        if g % ctx.nworkers != ctx.widx {
                            continue;
                        }
                        let c = C16Case { sched_seed: seed ^ ctx.seed.rotate_left(7), extra_prefix: vec![], sat, sat_n, victim, k, settle_between: sb, pre_ticks };
                        let _ = std::fs::write(&ctx.inflight, serde_json::to_vec(&json!({"engine":"c16","case":c})).unwrap_or_default());
                        evals += 1;
                        let (v, inside, tj) = check(&c);
                        if inside {
                            out.fingerprints.push(fingerprint(&(victim, k, sat, sb, pre_ticks, sat_n)));
                            out.class(&format!("dropped_inside_handler/{}", VICTIMS[victim as usize]));
                            if out.samples.len() < 2 {
                                out.samples.push(serde_json::to_value(&c).unwrap());
                            }
                        }
                        if let Some((rule, detail)) = v {
                            if let Some(f) = match_finding(&ctx.findings, &ctx.prop, &rule, &detail) {
                                *out.known_hits.entry(format!("{}: {}", f.rule, f.description)).or_insert(0) += 1;
                                continue;
                            }
                            out.evaluations += evals;
                            out.failure = Some(Failure { rule, detail, engine: "c16".into(), input: json!({"engine":"c16","case":c}), trace: tj });
                            return;
                        }
                    }
                }
            }
        }
    }
    out.evaluations += evals;
    out.exhaustive = Some(true);
    out.notes.push(format!("enumerated {} victim kinds x polls 0..=12 x 4 saturation modes x 8 pacing modes (tick/settle between polls, 0-3 ticks between the bursts and the first poll, bursts of 17/27/40/72 requests) x {} scheduler seed(s) (sharded); each case = 3 simulations (abandoned, completed, never sent)", VICTIMS.len(), seeds));
    // (2) random prefixes
    let cases = ctx.share(match ctx.tier {
        Tier::Quick => 1_500,
        Tier::Thorough => 40_000,
    });
    let mut runner = TestRunner::new(Config { cases: cases as u32, failure_persistence: None, rng_seed: RngSeed::Fixed(ctx.stage_seed("c16_random")), max_shrink_iters: 600, ..Config::default() });
    let acc = std::cell::RefCell::new((0u64, Vec::<u64>::new(), false, Vec::<serde_json::Value>::new(), None::<serde_json::Value>));
    let findings = ctx.findings.clone();
    let prop = ctx.prop.clone();
    let inflight = ctx.inflight.clone();
    let result = runner.run(&arb_c16(), |c| {
        let _ = std::fs::write(&inflight, serde_json::to_vec(&json!({"engine":"c16","case":c})).unwrap_or_default());
        let (v, inside, tj) = check(&c);
        let mut a = acc.borrow_mut();
        if !a.2 {
            a.0 += 1;
            if inside {
                a.1.push(fingerprint(&c));
                if a.3.len() < 2 {
                    a.3.push(serde_json::to_value(&c).unwrap());
                }
            }
        }
        if let Some((rule, detail)) = v {
            if match_finding(&findings, &prop, &rule, &detail).is_some() {
                return Ok(());
            }
            a.2 = true;
            a.4 = Some(tj);
            return Err(TestCaseError::fail(format!("{}||{}", rule, detail)));
        }
        Ok(())
    });
    let (n, fps, _, samples, tj) = acc.into_inner();
    out.evaluations += n;
    out.fingerprints.extend(fps);
    for s in samples {
        if out.samples.len() < 6 {
            out.samples.push(s);
        }
    }
    if let Err(TestError::Fail(reason, c)) = result {
        let msg = reason.message().to_string();
        let (rule, detail) = msg.split_once("||").map(|(a, b)| (a.to_string(), b.to_string())).unwrap_or((msg.clone(), msg.clone()));
        out.failure = Some(Failure { rule, detail, engine: "c16".into(), input: json!({"engine":"c16","case":c}), trace: tj.unwrap_or(json!(null)) });
    }
}

pub fn replay_c16(input: &serde_json::Value) -> Result<Vec<crate::model::Violation>, String> {
    let c: C16Case = serde_json::from_value(input.get("case").cloned().ok_or("no case")?).map_err(|e| e.to_string())?;
    let (v, _, _) = check(&c);
    Ok(v.into_iter().map(|(rule, detail)| crate::model::Violation { rule, props: vec!["C16".into()], at: 0, detail }).collect())
}
