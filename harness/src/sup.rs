//! Supervisor: runs the workers as child processes, merges their results, minimises
//! crashing inputs, writes the evidence file and prints the verdict lines.
use crate::props;
use crate::runner::*;
use serde_json::{json, Value};
use std::collections::BTreeSet;
use std::path::PathBuf;
use std::process::{Command, Stdio};
use std::time::{Duration, Instant};

fn seed_from_env() -> u64 {
    std::env::var("VERIF_SEED").ok().and_then(|s| s.trim().parse::<i64>().ok()).map(|v| v as u64).unwrap_or(0)
}

fn n_workers() -> u64 {
    if let Some(n) = std::env::var("VERIF_WORKERS").ok().and_then(|s| s.parse::<u64>().ok()) {
        return n.max(1);
    }
    std::thread::available_parallelism().map(|n| n.get() as u64).unwrap_or(4).min(16)
}

pub fn work_dir(prop: &str) -> PathBuf {
    let d = verif_root().join("harness").join("target").join("vcheck-work").join(format!("{}-{}", prop, std::process::id()));
    let _ = std::fs::create_dir_all(&d);
    d
}

/// Does running this input kill the process (abort / segfault)? Some(signal-ish description).
fn crashes(input: &Value, dir: &PathBuf, prop: &str) -> Option<String> {
    let f = dir.join("crash-candidate.json");
    std::fs::write(&f, serde_json::to_vec(input).unwrap()).ok()?;
    let exe = std::env::current_exe().ok()?;
    let out = Command::new(exe).arg("exec-input").arg(prop).arg(&f).env("VERIF_CASE_LIMIT_S", "20").stdout(Stdio::null()).stderr(Stdio::piped()).output().ok()?;
    if out.status.code() == Some(crate::sim::EXIT_NEVER_QUIESCENT) {
        return Some("never quiescent: a server task keeps itself runnable forever (busy loop); the paused clock cannot advance".to_string());
    }
    if out.status.code().is_none() || out.status.code() == Some(134) || out.status.code() == Some(101) {
        let err = String::from_utf8_lossy(&out.stderr);
        let line = err.lines().rev().find(|l| !l.trim().is_empty()).unwrap_or("").to_string();
        Some(format!("process died ({:?}): {}", out.status, line.chars().take(200).collect::<String>()))
    } else {
        None
    }
}

fn minimise_crash(mut input: Value, dir: &PathBuf, prop: &str) -> (Value, String) {
    let mut why = crashes(&input, dir, prop).unwrap_or_else(|| "process died (not reproduced in isolation)".to_string());
    let spinning = why.starts_with("never quiescent");
    let mut budget = if spinning { 14 } else { 400 };
    loop {
        let n = input.pointer("/case/ops").and_then(|o| o.as_array()).map(|a| a.len()).unwrap_or(0);
        let mut progressed = false;
        let mut i = n;
        while i > 0 && budget > 0 {
            i -= 1;
            let mut cand = input.clone();
            if let Some(ops) = cand.pointer_mut("/case/ops").and_then(|o| o.as_array_mut()) {
                if i >= ops.len() {
                    continue;
                }
                ops.remove(i);
            }
            budget -= 1;
            if let Some(w) = crashes(&cand, dir, prop) {
                input = cand;
                why = w;
                progressed = true;
            }
        }
        if !progressed || budget == 0 {
            break;
        }
    }
    (input, why)
}

pub fn run_check(prop: &str, tier: Tier) -> i32 {
    let t0 = Instant::now();
    let seed = seed_from_env();
    let n = n_workers();
    let dir = work_dir(prop);
    let exe = std::env::current_exe().unwrap();
    let watchdog = match tier {
        Tier::Quick => Duration::from_secs(std::env::var("VERIF_WATCHDOG_S").ok().and_then(|s| s.parse().ok()).unwrap_or(1500)),
        Tier::Thorough => Duration::from_secs(std::env::var("VERIF_WATCHDOG_S").ok().and_then(|s| s.parse().ok()).unwrap_or(4 * 3600)),
    };
    let mut children = Vec::new();
    for w in 0..n {
        let child = Command::new(&exe)
            .arg("worker")
            .arg(prop)
            .arg(tier.name())
            .arg(seed.to_string())
            .arg(w.to_string())
            .arg(n.to_string())
            .arg(&dir)
            .stdout(Stdio::null())
            .stderr(Stdio::piped())
            .spawn();
        match child {
            Ok(c) => children.push((w, c)),
            Err(e) => {
                eprintln!("cannot start worker: {}", e);
                return 2;
            }
        }
    }
    let mut merged = WorkerOut::default();
    let mut infra_problem: Option<String> = None;
    let mut crashed_inputs: Vec<Value> = Vec::new();
    for (w, mut c) in children {
        // wait with the watchdog
        let status = loop {
            match c.try_wait() {
                Ok(Some(st)) => break Some(st),
                Ok(None) => {
                    if t0.elapsed() > watchdog {
                        let _ = c.kill();
                        let _ = c.wait();
                        break None;
                    }
                    std::thread::sleep(Duration::from_millis(20));
                }
                Err(_) => break None,
            }
        };
        let mut stderr = String::new();
        if let Some(mut e) = c.stderr.take() {
            use std::io::Read;
            let _ = e.read_to_string(&mut stderr);
        }
        match status {
            None => {
                infra_problem = Some(format!("worker {} exceeded the watchdog of {:?}", w, watchdog));
            }
            Some(st) if st.success() => match read_json(&dir.join(format!("out-{}.json", w))).and_then(|v| serde_json::from_value::<WorkerOut>(v).ok()) {
                Some(o) => merged.merge(o),
                None => infra_problem = Some(format!("worker {} left no result", w)),
            },
            Some(st) => {
                // died: the in-flight input is the suspect
                match read_json(&dir.join(format!("inflight-{}.json", w))) {
                    Some(input) => crashed_inputs.push(json!({"input": input, "status": format!("{:?}", st), "stderr": stderr.lines().rev().take(3).collect::<Vec<_>>()})),
                    None => infra_problem = Some(format!("worker {} died ({:?}) without an in-flight input: {}", w, st, stderr.lines().last().unwrap_or(""))),
                }
                if let Some(o) = read_json(&dir.join(format!("out-{}.json", w))).and_then(|v| serde_json::from_value::<WorkerOut>(v).ok()) {
                    merged.merge(o);
                }
            }
        }
    }
    if merged.failure.is_none() {
        if let Some(c) = crashed_inputs.first() {
            let input = c.get("input").cloned().unwrap_or(Value::Null);
            let (min, why) = minimise_crash(input, &dir, prop);
            let spinning = why.starts_with("never quiescent");
            merged.failure = Some(Failure {
                rule: if spinning { "never_quiescent".into() } else { "process_abort".into() },
                detail: if spinning { format!("while running this input the simulated server never becomes quiescent: {}", why) } else { format!("the server code aborted the process while running this input: {}", why) },
                engine: min.get("engine").and_then(|e| e.as_str()).unwrap_or("sim").to_string(),
                input: min,
                trace: json!({"worker": c}),
            });
        }
    }
    let wall = t0.elapsed().as_secs_f64();
    let info = props::info(prop);
    let distinct: BTreeSet<u64> = merged.fingerprints.iter().cloned().collect();
    let mut violations = 0;
    let mut exit = 0;
    let mut replay_path = None;
    // a system that never becomes quiescent is a violation of the liveness properties (C06: a
    // waiting consumer is served without further requests; C07: every request terminates after
    // bounded work); for the other properties it only makes the run inconclusive
    if let Some(f) = &merged.failure {
        if f.rule == "never_quiescent" && !["C06", "C07", "C15", "C17"].contains(&prop) {
            let p = write_replay(prop, f);
            infra_problem = Some(format!("a case made the simulated server spin forever (see {}); this is reported by the C06/C07 checks", p.display()));
            merged.failure = None;
        }
    }
    if let Some(f) = &merged.failure {
        violations = 1;
        let p = write_replay(prop, f);
        println!("VIOLATION property={} replay={}", prop, p.display());
        println!("  rule: {}", f.rule);
        println!("  {}", f.detail);
        replay_path = Some(p.display().to_string());
        exit = 1;
    }
    for (k, v) in &merged.known_hits {
        println!("KNOWN-FINDING: property={} {} (observed {} times in this run)", prop, k, v);
    }
    if exit == 0 {
        if let Some(p) = &infra_problem {
            eprintln!("INCONCLUSIVE property={} {}", prop, p);
            exit = 2;
        } else if let Some(p) = &merged.inconclusive {
            eprintln!("INCONCLUSIVE property={} {}", prop, p);
            exit = 2;
        }
    }
    let mut samples = merged.samples.clone();
    if samples.is_empty() {
        samples.push(json!("no non-trivial case in this run"));
    }
    let mut coverage = json!({
        "evaluations": merged.evaluations,
        "distinct_nontrivial": distinct.len(),
        "rule": info.rule,
        "samples": samples,
        "class_histogram": merged.classes,
        "other_oracle_hits": merged.other_hits,
        "known_finding_hits": merged.known_hits,
        "excluded_by_known_finding_signature": merged.excluded,
        "workers": n,
        "notes": merged.notes,
    });
    if let Some(e) = merged.exhaustive {
        coverage["exhaustive"] = json!(e);
        coverage["exhaustive_scope"] = json!("the enumerated sub-space named in notes; the random stages are not exhaustive");
    }
    if let Some(r) = &replay_path {
        coverage["replay"] = json!(r);
    }
    let ev = json!({
        "property_id": prop,
        "tier": tier.name(),
        "seed": seed as i64,
        "level": info.level,
        "coverage": coverage,
        "assumptions": info.assumptions,
        "wall_s": wall,
        "violations": violations,
    });
    let evdir = verif_root().join("evidence");
    let _ = std::fs::create_dir_all(&evdir);
    let _ = std::fs::write(evdir.join(format!("{}.json", prop)), serde_json::to_vec_pretty(&ev).unwrap());
    let _ = std::fs::remove_dir_all(&dir);
    println!(
        "{} {}: evaluations={} distinct_nontrivial={} violations={} known={} wall={:.1}s exit={}",
        prop,
        tier.name(),
        merged.evaluations,
        distinct.len(),
        violations,
        merged.known_hits.len(),
        wall,
        exit
    );
    exit
}

pub fn run_worker_process(args: &[String]) -> i32 {
    // worker <prop> <tier> <seed> <widx> <n> <dir>
    let prop = args[0].clone();
    let tier = if args[1] == "thorough" { Tier::Thorough } else { Tier::Quick };
    let seed: u64 = args[2].parse().unwrap_or(0);
    let widx: u64 = args[3].parse().unwrap_or(0);
    let n: u64 = args[4].parse().unwrap_or(1);
    let dir = PathBuf::from(&args[5]);
    let ctx = WorkerCtx { prop, tier, seed, widx, nworkers: n, inflight: dir.join(format!("inflight-{}.json", widx)), findings: load_findings() };
    crate::sim::init_epoch();
    crate::sim::install_panic_hook();
    crate::sim::install_watchdog(std::env::var("VERIF_CASE_LIMIT_S").ok().and_then(|s| s.parse().ok()).unwrap_or(90));
    let out = props::run_worker(&ctx);
    let _ = std::fs::write(dir.join(format!("out-{}.json", widx)), serde_json::to_vec(&out).unwrap());
    0
}

pub fn replay(path: &str) -> i32 {
    let v = match read_json(std::path::Path::new(path)) {
        Some(v) => v,
        None => {
            eprintln!("cannot read {}", path);
            return 2;
        }
    };
    let prop = v.get("property").and_then(|p| p.as_str()).unwrap_or("").to_string();
    let input = v.get("input").cloned().unwrap_or(Value::Null);
    crate::sim::init_epoch();
    crate::sim::install_panic_hook();
    let findings = load_findings();
    match props::replay_input(&prop, &input) {
        Ok(vs) => {
            let mut hit = false;
            for x in &vs {
                if x.props.iter().any(|p| *p == prop) {
                    if match_finding(&findings, &prop, &x.rule, &x.detail).is_some() {
                        println!("KNOWN-FINDING: property={} {}", prop, x.rule);
                        continue;
                    }
                    println!("  rule: {}\n  {}", x.rule, x.detail);
                    hit = true;
                }
            }
            if hit {
                println!("VIOLATION property={} replay={}", prop, path);
                1
            } else {
                println!("replay of {}: the property holds on this input", path);
                0
            }
        }
        Err(e) => {
            eprintln!("replay failed: {}", e);
            2
        }
    }
}
