//! Supervisor: runs the workers as child processes, merges their results, minimises
//! crashing inputs, writes the evidence file and prints the verdict lines.
use crate::props;
use crate::runner::*;
use serde_json::{json, Value};
use std::collections::BTreeSet;
use std::path::PathBuf;
use std::process::{Command, Stdio};
use std::time::{Duration, Instant};

fn seed_from_env() -> u64 {
    std::env::var("VERIF_SEED").ok().and_then(|s| s.trim().parse::<i64>().ok()).map(|v| v as u64).unwrap_or(0)
}

fn n_workers() -> u64 {
    if let Some(n) = std::env::var("VERIF_WORKERS").ok().and_then(|s| s.parse::<u64>().ok()) {
        return n.max(1);
    }
    std::thread::available_parallelism().map(|n| n.get() as u64).unwrap_or(4).min(16)
}

pub fn work_dir(prop: &str) -> PathBuf {
    let d = verif_root().join("harness").join("target").join("vcheck-work").join(format!("{}-{}", prop, std::process::id()));
    let _ = std::fs::create_dir_all(&d);
    d
}

/// Does running this input kill the process (abort / segfault)? Some(signal-ish description).
fn crashes(input: &Value, dir: &PathBuf, prop: &str) -> Option<String> {
    let f = dir.join("crash-candidate.json");
    std::fs::write(&f, serde_json::to_vec(input).unwrap()).ok()?;
    let exe = std::env::current_exe().ok()?;
    let out = Command::new(exe).arg("exec-input").arg(prop).arg(&f).env("VERIF_CASE_LIMIT_S", "20").stdout(Stdio::null()).stderr(Stdio::piped()).output().ok()?;
    if out.status.code() == Some(crate::sim::EXIT_NEVER_QUIESCENT) {
        return Some("never quiescent: a server task keeps itself runnable forever (busy loop); the paused clock cannot advance".to_string());
    }
    if out.status.code().is_none() || out.status.code() == Some(134) || out.status.code() == Some(101) {
        let err = String::from_utf8_lossy(&out.stderr);
        let line = err.lines().rev().find(|l| !l.trim().is_empty()).unwrap_or("").to_string();
        Some(format!("process died ({:?}): {}", out.status, line.chars().take(200).collect::<String>()))
    } else {
        None
    }
}

fn minimise_crash(mut input: Value, dir: &PathBuf, prop: &str) -> (Value, String) {
    let mut why = crashes(&input, dir, prop).unwrap_or_else(|| "process died (not reproduced in isolation)".to_string());
    let spinning = why.starts_with("never quiescent");
    let mut budget = if spinning { 14 } else { 400 };
    loop {
        let n = input.pointer("/case/ops").and_then(|o| o.as_array()).map(|a| a.len()).unwrap_or(0);
        let mut progressed = false;
        let mut i = n;
        while i > 0 && budget > 0 {
            i -= 1;
            let mut cand = input.clone();
            if let Some(ops) = cand.pointer_mut("/case/ops").and_then(|o| o.as_array_mut()) {
                if i >= ops.len() {
                    continue;
                }
                ops.remove(i);
            }
            budget -= 1;
            if let Some(w) = crashes(&cand, dir, prop) {
                input = cand;
                why = w;
                progressed = true;
            }
        }
        if !progressed || budget == 0 {
            break;
        }
    }
    (input, why)
}

pub fn run_check(prop: &str, tier: Tier) -> i32 {
    let t0 = Instant::now();
    let seed = seed_from_env();
    let n = n_workers();
    let dir = work_dir(prop);
    let exe = std::env::current_exe().unwrap();
    let watchdog = match tier {
        Tier::Quick => Duration::from_secs(std::env::var("VERIF_WATCHDOG_S").ok().and_then(|s| s.parse().ok()).unwrap_or(1500)),
        Tier::Thorough => Duration::from_secs(std::env::var("VERIF_WATCHDOG_S").ok().and_then(|s| s.parse().ok()).unwrap_or(4 * 3600)),
    };
    let mut children = Vec::new();
    for w in 0..n {
        let child = Command::new(&exe)
            .arg("worker")
            .arg(prop)
            .arg(tier.name())
            .arg(seed.to_string())
            .arg(w.to_string())
            .arg(n.to_string())
            .arg(&dir)
            .stdout(Stdio::null())
            .stderr(Stdio::piped())
            .spawn();
        match child {
            Ok(c) => children.push((w, c)),
            Err(e) => {
                eprintln!("cannot start worker: {}", e);
                return 2;
            }
        }
    }
    let mut merged = WorkerOut::default();
    let mut infra_problem: Option<String> = None;
    let mut crashed_inputs: Vec<Value> = Vec::new();
    for (w, mut c) in children {
        // wait with the watchdog
        let status = loop {
            match c.try_wait() {
                Ok(Some(st)) => break Some(st),
                Ok(None) => {
                    if t0.elapsed() > watchdog {
                        let _ = c.kill();
                        let _ = c.wait();
                        break None;
                    }
                    std::thread::sleep(Duration::from_millis(20));
                }
                Err(_) => break None,
            }
        };
        let mut stderr = String::new();
        if let Some(mut e) = c.stderr.take() {
            use std::io::Read;
            let _ = e.read_to_string(&mut stderr);
        }
        match status {
            None => {
                infra_problem = Some(format!("worker {} exceeded the watchdog of {:?}", w, watchdog));
            }
            Some(st) if st.success() => match read_json(&dir.join(format!("out-{}.json", w))).and_then(|v| serde_json::from_value::<WorkerOut>(v).ok()) {
                Some(o) => merged.merge(o),
                None => infra_problem = Some(format!("worker {} left no result", w)),
            },
            Some(st) => {
                // died: the in-flight input is the suspect
                match read_json(&dir.join(format!("inflight-{}.json", w))) {
                    Some(input) => crashed_inputs.push(json!({"input": input, "status": format!("{:?}", st), "stderr": stderr.lines().rev().take(3).collect::<Vec<_>>()})),
                    None => infra_problem = Some(format!("worker {} died ({:?}) without an in-flight input: {}", w, st, stderr.lines().last().unwrap_or(""))),
                }
                if let Some(o) = read_json(&dir.join(format!("out-{}.json", w))).and_then(|v| serde_json::from_value::<WorkerOut>(v).ok()) {
                    merged.merge(o);
                }
            }
        }
    }
    if merged.failure.is_none() {
        if let Some(c) = crashed_inputs.first() {
            let input = c.get("input").cloned().unwrap_or(Value::Null);
            let (min, why) = minimise_crash(input, &dir, prop);
            let spinning = why.starts_with("never quiescent");
            merged.failure = Some(Failure {
                rule: if spinning { "never_quiescent".into() } else { "process_abort".into() },
                detail: if spinning { format!("while running this input the simulated server never becomes quiescent: {}", why) } else { format!("the server code aborted the process while running this input: {}", why) },
                engine: min.get("engine").and_then(|e| e.as_str()).unwrap_or("sim").to_string(),
                input: min,
                trace: json!({"worker": c}),
            });
        }
    }
    // coverage-guided stage (thorough tier, properties decided by the simulation model)
    let mut fuzz_summary: Option<Value> = None;
    let fuzz_secs: u64 = std::env::var("VERIF_FUZZ_SECS").ok().and_then(|s| s.parse().ok()).unwrap_or(if tier == Tier::Thorough { 180 } else { 0 });
    if fuzz_secs > 0 && merged.failure.is_none() && props::FUZZ_PROPS.contains(&prop) {
        let fo = fuzz_stage(prop, seed, fuzz_secs, &dir);
        merged.evaluations += fo.execs;
        for o in fo.other {
            *merged.other_hits.entry(o).or_insert(0) += 1;
        }
        if merged.failure.is_none() {
            merged.failure = fo.failure;
        }
        fuzz_summary = Some(fo.summary);
    }
    let wall = t0.elapsed().as_secs_f64();
    let info = props::info(prop);
    let distinct: BTreeSet<u64> = merged.fingerprints.iter().cloned().collect();
    let mut violations = 0;
    let mut exit = 0;
    let mut replay_path = None;
    // a system that never becomes quiescent is a violation of the liveness properties (C06: a
    // waiting consumer is served without further requests; C07: every request terminates after
    // bounded work); for the other properties it only makes the run inconclusive
    if let Some(f) = &merged.failure {
        if f.rule == "never_quiescent" && !["C06", "C07", "C15", "C17"].contains(&prop) {
            let p = write_replay(prop, f);
            infra_problem = Some(format!("a case made the simulated server spin forever (see {}); this is reported by the C06/C07 checks", p.display()));
            merged.failure = None;
        }
    }
    if let Some(f) = &merged.failure {
        violations = 1;
        let p = write_replay(prop, f);
        println!("VIOLATION property={} replay={}", prop, p.display());
        println!("  rule: {}", f.rule);
        println!("  {}", f.detail);
        replay_path = Some(p.display().to_string());
        exit = 1;
    }
    for (k, v) in &merged.known_hits {
        println!("KNOWN-FINDING: property={} {} (observed {} times in this run)", prop, k, v);
    }
    if exit == 0 {
        if let Some(p) = &infra_problem {
            eprintln!("INCONCLUSIVE property={} {}", prop, p);
            exit = 2;
        } else if let Some(p) = &merged.inconclusive {
            eprintln!("INCONCLUSIVE property={} {}", prop, p);
            exit = 2;
        }
    }
    let mut samples = merged.samples.clone();
    if samples.is_empty() {
        samples.push(json!("no non-trivial case in this run"));
    }
    let mut coverage = json!({
        "evaluations": merged.evaluations,
        "distinct_nontrivial": distinct.len(),
        "rule": info.rule,
        "samples": samples,
        "class_histogram": merged.classes,
        "other_oracle_hits": merged.other_hits,
        "known_finding_hits": merged.known_hits,
        "excluded_by_known_finding_signature": merged.excluded,
        "workers": n,
        "notes": merged.notes,
    });
    if let Some(e) = merged.exhaustive {
        coverage["exhaustive"] = json!(e);
        coverage["exhaustive_scope"] = json!("the enumerated sub-space named in notes; the random stages are not exhaustive");
    }
    if let Some(r) = &replay_path {
        coverage["replay"] = json!(r);
    }
    if let Some(f) = fuzz_summary {
        coverage["fuzz_stage"] = f;
    }
    let ev = json!({
        "property_id": prop,
        "tier": tier.name(),
        "seed": seed as i64,
        "level": info.level,
        "coverage": coverage,
        "assumptions": info.assumptions,
        "wall_s": wall,
        "violations": violations,
    });
    let evdir = verif_root().join("evidence");
    let _ = std::fs::create_dir_all(&evdir);
    let _ = std::fs::write(evdir.join(format!("{}.json", prop)), serde_json::to_vec_pretty(&ev).unwrap());
    let _ = std::fs::remove_dir_all(&dir);
    println!(
        "{} {}: evaluations={} distinct_nontrivial={} violations={} known={} wall={:.1}s exit={}",
        prop,
        tier.name(),
        merged.evaluations,
        distinct.len(),
        violations,
        merged.known_hits.len(),
        wall,
        exit
    );
    exit
}

/// The replay input of a decoded fuzz case (same run configuration as the fuzz target).
pub fn fuzz_input_json(case: &crate::case::Case) -> Value {
    json!({"engine":"sim","stage":"fuzz","cfg":{"horizon":true,"drain":true,"qp_each_op":true},"case":case})
}

/// Result of the coverage-guided stage.
pub struct FuzzOut {
    pub summary: Value,
    pub execs: u64,
    pub failure: Option<Failure>,
    pub other: Vec<String>,
}

/// Removes operations one at a time while the input still violates `prop` by `rule`.
fn minimise_violation(prop: &str, mut input: Value, rule: &str) -> Value {
    let still = |inp: &Value| -> bool { props::replay_input(prop, inp).map(|vs| vs.iter().any(|v| v.rule == rule && v.props.iter().any(|p| p == prop))).unwrap_or(false) };
    let mut budget = 600;
    loop {
        let n = input.pointer("/case/ops").and_then(|o| o.as_array()).map(|a| a.len()).unwrap_or(0);
        let mut progressed = false;
        let mut i = n;
        while i > 0 && budget > 0 {
            i -= 1;
            let mut cand = input.clone();
            if let Some(ops) = cand.pointer_mut("/case/ops").and_then(|o| o.as_array_mut()) {
                if i >= ops.len() {
                    continue;
                }
                ops.remove(i);
            }
            budget -= 1;
            if still(&cand) {
                input = cand;
                progressed = true;
            }
        }
        if !progressed || budget == 0 {
            break;
        }
    }
    input
}

/// Coverage-guided stage of the thorough tier (libFuzzer through cargo-fuzz, dev profile, no
/// sanitizer): `secs` seconds of `-fork` fuzzing of the byte-decoded operation language with
/// the reference model as the oracle, restricted to `prop`. Every artifact is decoded,
/// re-judged outside the fuzzer and minimised. If the fuzz binary cannot be built the stage
/// is skipped and says so.
pub fn fuzz_stage(prop: &str, seed: u64, secs: u64, dir: &PathBuf) -> FuzzOut {
    let skip = |why: String| FuzzOut { summary: json!({"skipped": why}), execs: 0, failure: None, other: vec![] };
    let fdir = verif_root().join("fuzz");
    if !fdir.join("Cargo.toml").exists() {
        return skip("no fuzz crate".into());
    }
    let build = Command::new("cargo")
        .args(["+nightly", "fuzz", "build", "--dev", "-s", "none", "--fuzz-dir"])
        .arg(&fdir)
        .arg("sim_ops")
        .env("RUSTFLAGS", "--cfg deltio_verif --cfg tokio_unstable")
        .env("CARGO_NET_OFFLINE", "true")
        .current_dir(&fdir)
        .stdout(Stdio::null())
        .stderr(Stdio::piped())
        .output();
    match build {
        Ok(o) if o.status.success() => {}
        Ok(o) => return skip(format!("cargo fuzz build failed: {}", String::from_utf8_lossy(&o.stderr).lines().rev().take(3).collect::<Vec<_>>().join(" | "))),
        Err(e) => return skip(format!("cargo fuzz not runnable: {}", e)),
    }
    let bin = fdir.join("target").join("x86_64-unknown-linux-gnu").join("debug").join("sim_ops");
    if !bin.exists() {
        return skip("fuzz binary not found after build".into());
    }
    let work = fdir.join("work").join(format!("{}-{}", prop, std::process::id()));
    let corpus = work.join("corpus");
    let art = work.join("art");
    let _ = std::fs::create_dir_all(&corpus);
    let _ = std::fs::create_dir_all(&art);
    let mut seeds = 0;
    if let Ok(rd) = std::fs::read_dir(fdir.join("seeds")) {
        for e in rd.flatten() {
            if std::fs::copy(e.path(), corpus.join(e.file_name())).is_ok() {
                seeds += 1;
            }
        }
    }
    let t0 = Instant::now();
    let out = Command::new(&bin)
        .arg(&corpus)
        .arg(format!("-artifact_prefix={}/", art.display()))
        .arg(format!("-max_total_time={}", secs))
        .arg(format!("-seed={}", seed.wrapping_add(1) % 4_000_000_000))
        .arg(format!("-fork={}", n_workers()))
        .args(["-len_control=0", "-max_len=160", "-timeout=120", "-rss_limit_mb=4096"])
        .env("VERIF_FUZZ_PROPS", prop)
        .current_dir(&work)
        .stdout(Stdio::null())
        .stderr(Stdio::piped())
        .output();
    let log = match out {
        Ok(o) => String::from_utf8_lossy(&o.stderr).to_string(),
        Err(e) => return skip(format!("fuzz binary not runnable: {}", e)),
    };
    // last progress line of the fork-mode parent: "#<execs>: cov: <c> ft: <f> corp: <n> exec/s <r> ..."
    let (mut execs, mut cov, mut ft, mut corp) = (0u64, 0u64, 0u64, 0u64);
    for l in log.lines() {
        if let Some(rest) = l.strip_prefix('#') {
            let toks: Vec<&str> = rest.split_whitespace().collect();
            if toks.len() > 6 && toks[1] == "cov:" {
                execs = toks[0].trim_end_matches(':').parse().unwrap_or(execs);
                cov = toks[2].parse().unwrap_or(cov);
                ft = toks[4].parse().unwrap_or(ft);
                corp = toks[6].parse().unwrap_or(corp);
            }
        }
    }
    let mut arts: Vec<PathBuf> = std::fs::read_dir(&art).map(|rd| rd.flatten().map(|e| e.path()).collect()).unwrap_or_default();
    arts.sort();
    let mut failure = None;
    let mut other = Vec::new();
    for a in &arts {
        let bytes = match std::fs::read(a) {
            Ok(b) => b,
            Err(_) => continue,
        };
        let case = crate::fuzzdec::decode(&bytes);
        let input = fuzz_input_json(&case);
        if failure.is_some() {
            // one minimised failure is reported; the other artifacts are only counted
            continue;
        }
        if crashes(&input, dir, prop).is_some() {
            let (min, why) = minimise_crash(input, dir, prop);
            let spinning = why.starts_with("never quiescent");
            if failure.is_none() {
                failure = Some(Failure {
                    rule: if spinning { "never_quiescent".into() } else { "process_abort".into() },
                    detail: format!("(found by the fuzz stage) {}", why),
                    engine: "sim".into(),
                    input: min,
                    trace: json!({"artifact": a.file_name().and_then(|n| n.to_str()).unwrap_or("")}),
                });
            }
            continue;
        }
        match props::replay_input(prop, &input) {
            Ok(vs) => {
                let findings = load_findings();
                for v in vs {
                    if v.props.iter().any(|p| p == prop) {
                        if match_finding(&findings, prop, &v.rule, &v.detail).is_some() {
                            continue;
                        }
                        if failure.is_none() {
                            let min = minimise_violation(prop, input.clone(), &v.rule);
                            let detail = props::replay_input(prop, &min).ok().and_then(|vs| vs.into_iter().find(|x| x.rule == v.rule).map(|x| x.detail)).unwrap_or(v.detail.clone());
                            failure = Some(Failure { rule: v.rule.clone(), detail: format!("(found by the fuzz stage) {}", detail), engine: "sim".into(), input: min, trace: json!(null) });
                        }
                    } else {
                        other.push(format!("{}:{}", v.props.join("/"), v.rule));
                    }
                }
            }
            Err(e) => other.push(format!("artifact not replayable: {}", e)),
        }
    }
    let summary = json!({
        "engine": "libFuzzer via cargo-fuzz (dev profile, no sanitizer), target sim_ops, fork mode",
        "oracle": "reference model restricted to this property (VERIF_FUZZ_PROPS)",
        "seconds": t0.elapsed().as_secs_f64(),
        "execs": execs,
        "coverage_edges": cov,
        "features": ft,
        "corpus_units": corp,
        "seed_inputs": seeds,
        "artifacts": arts.len(),
    });
    let _ = std::fs::remove_dir_all(&work);
    FuzzOut { summary, execs, failure, other }
}

pub fn run_worker_process(args: &[String]) -> i32 {
    // worker <prop> <tier> <seed> <widx> <n> <dir>
    let prop = args[0].clone();
    let tier = if args[1] == "thorough" { Tier::Thorough } else { Tier::Quick };
    let seed: u64 = args[2].parse().unwrap_or(0);
    let widx: u64 = args[3].parse().unwrap_or(0);
    let n: u64 = args[4].parse().unwrap_or(1);
    let dir = PathBuf::from(&args[5]);
    let ctx = WorkerCtx { prop, tier, seed, widx, nworkers: n, inflight: dir.join(format!("inflight-{}.json", widx)), findings: load_findings() };
    crate::sim::init_epoch();
    crate::sim::install_panic_hook();
    crate::sim::install_watchdog(std::env::var("VERIF_CASE_LIMIT_S").ok().and_then(|s| s.parse().ok()).unwrap_or(90));
    let out = props::run_worker(&ctx);
    let _ = std::fs::write(dir.join(format!("out-{}.json", widx)), serde_json::to_vec(&out).unwrap());
    0
}

pub fn replay(path: &str) -> i32 {
    let v = match read_json(std::path::Path::new(path)) {
        Some(v) => v,
        None => {
            eprintln!("cannot read {}", path);
            return 2;
        }
    };
    let prop = v.get("property").and_then(|p| p.as_str()).unwrap_or("").to_string();
    let input = v.get("input").cloned().unwrap_or(Value::Null);
    crate::sim::init_epoch();
    crate::sim::install_panic_hook();
    let findings = load_findings();
    match props::replay_input(&prop, &input) {
        Ok(vs) => {
            let mut hit = false;
            for x in &vs {
                if x.props.iter().any(|p| *p == prop) {
                    if match_finding(&findings, &prop, &x.rule, &x.detail).is_some() {
                        println!("KNOWN-FINDING: property={} {}", prop, x.rule);
                        continue;
                    }
                    println!("  rule: {}\n  {}", x.rule, x.detail);
                    hit = true;
                }
            }
            if hit {
                println!("VIOLATION property={} replay={}", prop, path);
                1
            } else {
                println!("replay of {}: the property holds on this input", path);
                0
            }
        }
        Err(e) => {
            eprintln!("replay failed: {}", e);
            2
        }
    }
}
