//! Engine PUSH (C14, push half of C09): Deltio with its real push loop against a scripted
//! local HTTP endpoint on loopback TCP, real clock. Many cases share one batch: each case is
//! one push subscription with its own URL path and its own fault script.
use crate::model::Violation;
use crate::runner::*;
use crate::sim::{make_payload, Wire, MARK};
use base64::Engine;
use deltio::pubsub_proto::publisher_client::PublisherClient;
use deltio::pubsub_proto::subscriber_client::SubscriberClient;
use deltio::pubsub_proto::*;
use deltio::Deltio;
use serde::{Deserialize, Serialize};
use serde_json::json;
use std::collections::HashMap;
use std::sync::{Arc, Mutex};
use std::time::{Duration, Instant};
use tokio::io::{AsyncReadExt, AsyncWriteExt};

#[derive(Clone, Debug, Serialize, Deserialize, PartialEq)]
pub enum Beh {
    /// answer with this status (complete response)
    Status(u16),
    /// answer with a 1xx status line and then nothing
    Interim(u16),
    /// read the request, then reset the connection
    Reset,
    /// read the request, then close without answering
    Close,
    /// read the request and never answer
    Stall,
    /// answer 200 after this many milliseconds
    Delayed200(u32),
    /// answer 200 this many milliseconds after the FIRST request on this path arrived: every
    /// request that is waiting then is answered at the same moment
    ReleaseAt(u32),
}

impl Beh {
    fn accepting(&self) -> bool {
        matches!(self, Beh::Status(200 | 201 | 202 | 204) | Beh::Delayed200(_) | Beh::ReleaseAt(_) | Beh::Interim(102))
    }
    fn answers_nothing(&self) -> bool {
        matches!(self, Beh::Stall | Beh::Interim(_))
    }
    fn transport_fault(&self) -> bool {
        matches!(self, Beh::Reset | Beh::Close | Beh::Stall)
    }
}

#[derive(Clone, Debug, Serialize, Deserialize, PartialEq)]
pub struct PushCase {
    /// behaviour per attempt (per message); the last one repeats
    pub script: Vec<Beh>,
    pub n_msgs: u8,
    /// 0 push subscription, 1 pull-only control subscription on the same topic,
    /// 2 push subscription deleted after `delete_after_ms`,
    /// 3 push subscription whose topic and then itself are deleted before anything is
    ///   published; both names are then re-created, the subscription WITHOUT a push endpoint,
    /// 4 a second push subscription (own path, own script) on the topic of the previous case,
    /// 5 pull subscription; a CreateSubscription of the same name WITH a push endpoint follows
    ///   and must be rejected (ALREADY_EXISTS) without any effect,
    /// 6 a CreateSubscription with a push endpoint that must be rejected (topic in another
    ///   project); afterwards a pull subscription is created under that very name
    pub kind: u8,
    pub delete_after_ms: u32,
    pub payload: crate::case::Payload,
    /// script for every second message of this subscription (by order of first arrival)
    #[serde(default)]
    pub script_odd: Option<Vec<Beh>>,
    /// ack deadline of the subscription in seconds (0 = the default of 10)
    #[serde(default)]
    pub dl: u32,
}

impl PushCase {
    fn dl_ms(&self) -> u64 {
        if self.dl == 0 { 10_000 } else { self.dl as u64 * 1_000 }
    }
    /// subscriptions that must never be POSTed to
    fn pull_only(&self) -> bool {
        matches!(self.kind, 1 | 3 | 5 | 6)
    }
}

#[derive(Clone, Debug)]
struct Hit {
    t_ms: u64,
    path: String,
    subscription: Option<String>,
    msg_id: Option<String>,
    msg_id_dupe: Option<String>,
    data: Option<Vec<u8>>,
    attrs: Option<Vec<(String, String)>>,
    json_ok: bool,
    beh: Beh,
    answered_ms: Option<u64>,
}

struct EndpointState {
    t0: Instant,
    scripts: HashMap<String, Vec<Beh>>,
    scripts_odd: HashMap<String, Vec<Beh>>,
    order: HashMap<String, Vec<String>>,
    attempts: HashMap<(String, String), usize>,
    hits: Vec<Hit>,
}

fn status_line(code: u16) -> String {
    let reason = match code {
        100 => "Continue",
        102 => "Processing",
        199 => "Misc",
        200 => "OK",
        201 => "Created",
        202 => "Accepted",
        204 => "No Content",
        301 => "Moved Permanently",
        304 => "Not Modified",
        400 => "Bad Request",
        404 => "Not Found",
        429 => "Too Many Requests",
        500 => "Internal Server Error",
        503 => "Service Unavailable",
        _ => "Status",
    };
    format!("HTTP/1.1 {} {}\r\n", code, reason)
}

async fn serve_conn(mut sock: tokio::net::TcpStream, st: Arc<Mutex<EndpointState>>) {
    let mut buf: Vec<u8> = Vec::new();
    loop {
        // read one request
        let header_end = loop {
            if let Some(p) = buf.windows(4).position(|w| w == b"\r\n\r\n") {
                break Some(p + 4);
            }
            let mut tmp = [0u8; 8192];
            match sock.read(&mut tmp).await {
                Ok(0) | Err(_) => break None,
                Ok(n) => buf.extend_from_slice(&tmp[..n]),
            }
        };
        let header_end = match header_end {
            Some(h) => h,
            None => return,
        };
        let head = String::from_utf8_lossy(&buf[..header_end]).to_string();
        let path = head.lines().next().and_then(|l| l.split_whitespace().nth(1)).unwrap_or("").to_string();
        let clen = head
            .lines()
            .find_map(|l| {
                let (k, v) = l.split_once(':')?;
                if k.eq_ignore_ascii_case("content-length") {
                    v.trim().parse::<usize>().ok()
                } else {
                    None
                }
            })
            .unwrap_or(0);
        while buf.len() < header_end + clen {
            let mut tmp = [0u8; 65536];
            match sock.read(&mut tmp).await {
                Ok(0) | Err(_) => return,
                Ok(n) => buf.extend_from_slice(&tmp[..n]),
            }
        }
        let body: Vec<u8> = buf[header_end..header_end + clen].to_vec();
        buf.drain(..header_end + clen);
        // decode
        let parsed: Option<serde_json::Value> = serde_json::from_slice(&body).ok();
        let (mut subscription, mut msg_id, mut msg_id_dupe, mut data, mut attrs) = (None, None, None, None, None);
        if let Some(v) = &parsed {
            subscription = v.get("subscription").and_then(|s| s.as_str()).map(|s| s.to_string());
            if let Some(m) = v.get("message") {
                msg_id = m.get("messageId").and_then(|s| s.as_str()).map(|s| s.to_string());
                msg_id_dupe = m.get("message_id").and_then(|s| s.as_str()).map(|s| s.to_string());
                data = m.get("data").and_then(|s| s.as_str()).and_then(|s| base64::engine::general_purpose::STANDARD.decode(s).ok());
                attrs = m.get("attributes").and_then(|a| a.as_object()).map(|o| {
                    let mut v: Vec<(String, String)> = o.iter().map(|(k, v)| (k.clone(), v.as_str().unwrap_or("").to_string())).collect();
                    v.sort();
                    v
                });
            }
        }
        let (beh, hit_idx) = {
            let mut g = st.lock().unwrap();
            let key = (path.clone(), msg_id.clone().unwrap_or_default());
            let n = *g.attempts.get(&key).unwrap_or(&0);
            g.attempts.insert(key, n + 1);
            let mid = msg_id.clone().unwrap_or_default();
            let ord = {
                let o = g.order.entry(path.clone()).or_default();
                match o.iter().position(|x| *x == mid) {
                    Some(p) => p,
                    None => {
                        o.push(mid.clone());
                        o.len() - 1
                    }
                }
            };
            let script = match (ord % 2 == 1, g.scripts_odd.get(&path)) {
                (true, Some(s)) => s.clone(),
                _ => g.scripts.get(&path).cloned().unwrap_or_else(|| vec![Beh::Status(200)]),
            };
            let beh = script[n.min(script.len() - 1)].clone();
            let t_ms = g.t0.elapsed().as_millis() as u64;
            g.hits.push(Hit { t_ms, path: path.clone(), subscription, msg_id, msg_id_dupe, data, attrs, json_ok: parsed.is_some(), beh: beh.clone(), answered_ms: None });
            (beh, g.hits.len() - 1)
        };
        let mark_answered = |st: &Arc<Mutex<EndpointState>>| {
            let mut g = st.lock().unwrap();
            let t = g.t0.elapsed().as_millis() as u64;
            g.hits[hit_idx].answered_ms = Some(t);
        };
        match beh {
            Beh::Status(code) => {
                let resp = if code == 204 || code == 304 { format!("{}\r\n", status_line(code)) } else { format!("{}Content-Length: 0\r\n\r\n", status_line(code)) };
                if sock.write_all(resp.as_bytes()).await.is_err() {
                    return;
                }
                let _ = sock.flush().await;
                mark_answered(&st);
            }
            Beh::ReleaseAt(ms) => {
                let (first, now) = {
                    let g = st.lock().unwrap();
                    let first = g.hits.iter().filter(|h| h.path == path).map(|h| h.t_ms).min().unwrap_or(0);
                    (first, g.t0.elapsed().as_millis() as u64)
                };
                let due = first + ms as u64;
                if due > now {
                    tokio::time::sleep(Duration::from_millis(due - now)).await;
                }
                if sock.write_all(format!("{}Content-Length: 0\r\n\r\n", status_line(200)).as_bytes()).await.is_err() {
                    return;
                }
                let _ = sock.flush().await;
                mark_answered(&st);
            }
            Beh::Delayed200(ms) => {
                tokio::time::sleep(Duration::from_millis(ms as u64)).await;
                if sock.write_all(format!("{}Content-Length: 0\r\n\r\n", status_line(200)).as_bytes()).await.is_err() {
                    return;
                }
                let _ = sock.flush().await;
                mark_answered(&st);
            }
            Beh::Interim(code) => {
                let _ = sock.write_all(format!("{}\r\n", status_line(code)).as_bytes()).await;
                let _ = sock.flush().await;
                mark_answered(&st);
                // then silence: hold the connection
                tokio::time::sleep(Duration::from_secs(3600)).await;
                return;
            }
            Beh::Reset => {
                let _ = sock.set_linger(Some(Duration::from_secs(0)));
                drop(sock);
                return;
            }
            Beh::Close => {
                let _ = sock.shutdown().await;
                return;
            }
            Beh::Stall => {
                tokio::time::sleep(Duration::from_secs(3600)).await;
                return;
            }
        }
    }
}

pub struct BatchOut {
    pub violations: Vec<Violation>,
    pub inconclusive: Option<String>,
    pub posts: usize,
}

/// Runs one batch. `secs` is the observation time after the publishes.
pub fn run_batch(cases: &[PushCase], secs: u64) -> BatchOut {
    std::env::set_var("NO_PROXY", "127.0.0.1,localhost");
    std::env::set_var("no_proxy", "127.0.0.1,localhost");
    let rt = tokio::runtime::Builder::new_multi_thread().worker_threads(4).enable_all().build().unwrap();
    let out = rt.block_on(async move {
        let listener = tokio::net::TcpListener::bind("127.0.0.1:0").await.unwrap();
        let port = listener.local_addr().unwrap().port();
        let st = Arc::new(Mutex::new(EndpointState { t0: Instant::now(), scripts: HashMap::new(), scripts_odd: HashMap::new(), order: HashMap::new(), attempts: HashMap::new(), hits: Vec::new() }));
        for (i, c) in cases.iter().enumerate() {
            st.lock().unwrap().scripts.insert(format!("/c{}", i), c.script.clone());
            if let Some(o) = &c.script_odd {
                st.lock().unwrap().scripts_odd.insert(format!("/c{}", i), o.clone());
            }
        }
        // kind 4 shares the topic of the case before it
        let topic_idx = |i: usize| if cases[i].kind == 4 && i > 0 { i - 1 } else { i };
        // kind 6 lives in a second project
        let proj = |i: usize| if cases[i].kind == 6 { "qq" } else { "pp" };
        {
            let st = st.clone();
            tokio::spawn(async move {
                loop {
                    if let Ok((sock, _)) = listener.accept().await {
                        let _ = sock.set_nodelay(true);
                        tokio::spawn(serve_conn(sock, st.clone()));
                    }
                }
            });
        }
        let app = Deltio::new();
        let routes = app.server_builder().into_service();
        let mut p = PublisherClient::new(Wire::new(routes.clone()));
        let mut s = SubscriberClient::new(Wire::new(routes.clone()));
        tokio::spawn(app.push_loop(Duration::from_millis(20)).run());
        let mut violations: Vec<Violation> = Vec::new();
        let mut v = |rule: &str, props: &[&str], detail: String| violations.push(Violation { rule: rule.into(), props: props.iter().map(|s| s.to_string()).collect(), at: 0, detail });
        // create resources
        struct Pub {
            id: String,
            data: Vec<u8>,
            attrs: Vec<(String, String)>,
            t_ms: u64,
        }
        let mut published: Vec<Vec<Pub>> = Vec::new();
        let mut mkey = 0u64;
        for (i, c) in cases.iter().enumerate() {
            let topic = format!("projects/{}/topics/top{}", proj(i), topic_idx(i));
            let sub = format!("projects/{}/subscriptions/sub{}", proj(i), i);
            if topic_idx(i) == i {
                if let Err(e) = p.create_topic(Topic { name: topic.clone(), ..Default::default() }).await {
                    v("setup_failed", &["C14"], format!("CreateTopic: {}", e));
                }
            }
            let endpoint = Some(PushConfig { push_endpoint: format!("http://127.0.0.1:{}/c{}", port, i), ..Default::default() });
            let dl = if c.dl == 0 { 10 } else { c.dl as i32 };
            if c.kind == 6 {
                // must be rejected: the topic is in another project
                let other = format!("projects/pp/topics/top{}", i);
                let _ = p.create_topic(Topic { name: other.clone(), ..Default::default() }).await;
                if let Ok(_) = s.create_subscription(Subscription { name: sub.clone(), topic: other, ack_deadline_seconds: dl, push_config: endpoint.clone(), ..Default::default() }).await {
                    v("setup_failed", &["C14"], format!("CreateSubscription across projects was accepted for {}", sub));
                }
            }
            let push_config = if matches!(c.kind, 1 | 5 | 6) { None } else { endpoint.clone() };
            if let Err(e) = s.create_subscription(Subscription { name: sub.clone(), topic: topic.clone(), ack_deadline_seconds: dl, push_config, ..Default::default() }).await {
                v("setup_failed", &["C14"], format!("CreateSubscription: {}", e));
            }
            if c.kind == 5 {
                // must be rejected: the name is taken
                if let Ok(_) = s.create_subscription(Subscription { name: sub.clone(), topic: topic.clone(), ack_deadline_seconds: dl, push_config: endpoint.clone(), ..Default::default() }).await {
                    v("setup_failed", &["C14"], format!("second CreateSubscription of {} was accepted", sub));
                }
            }
        }
        // kind 3: delete (topic first), then re-create under the same names as pull-only
        for (i, c) in cases.iter().enumerate() {
            if c.kind != 3 {
                continue;
            }
            let topic = format!("projects/pp/topics/top{}", i);
            let sub = format!("projects/pp/subscriptions/sub{}", i);
            let _ = p.delete_topic(DeleteTopicRequest { topic: topic.clone() }).await;
            let _ = s.delete_subscription(DeleteSubscriptionRequest { subscription: sub.clone() }).await;
            if let Err(e) = p.create_topic(Topic { name: topic.clone(), ..Default::default() }).await {
                v("setup_failed", &["C14"], format!("re-CreateTopic: {}", e));
            }
            if let Err(e) = s.create_subscription(Subscription { name: sub.clone(), topic: topic.clone(), ack_deadline_seconds: 10, push_config: None, ..Default::default() }).await {
                v("setup_failed", &["C14"], format!("re-CreateSubscription: {}", e));
            }
        }
        let t0 = st.lock().unwrap().t0;
        for (i, c) in cases.iter().enumerate() {
            let topic = format!("projects/{}/topics/top{}", proj(i), i);
            let mut msgs = Vec::new();
            let mut recs = Vec::new();
            if c.kind == 4 && i > 0 {
                // same messages as the sibling subscription
                let prev: Vec<Pub> = published[i - 1].iter().map(|p| Pub { id: p.id.clone(), data: p.data.clone(), attrs: p.attrs.clone(), t_ms: p.t_ms }).collect();
                published.push(prev);
                continue;
            }
            for _ in 0..c.n_msgs {
                mkey += 1;
                let (data, attrs, _) = make_payload(MARK | mkey, &c.payload);
                msgs.push(PubsubMessage { data: data.clone(), attributes: attrs.iter().cloned().collect(), ..Default::default() });
                recs.push((data, attrs));
            }
            match p.publish(PublishRequest { topic, messages: msgs }).await {
                Ok(r) => {
                    let ids = r.into_inner().message_ids;
                    let now = t0.elapsed().as_millis() as u64;
                    published.push(recs.into_iter().zip(ids).map(|((data, attrs), id)| Pub { id, data, attrs, t_ms: now }).collect());
                }
                Err(e) => {
                    v("setup_failed", &["C14"], format!("Publish: {}", e));
                    published.push(vec![]);
                }
            }
        }
        // deletions in mid-flight
        let mut deleted_at: HashMap<usize, u64> = HashMap::new();
        let mut dels: Vec<(u32, usize)> = cases.iter().enumerate().filter(|(_, c)| c.kind == 2).map(|(i, c)| (c.delete_after_ms, i)).collect();
        dels.sort();
        let start = Instant::now();
        for (after, i) in dels {
            let target = Duration::from_millis(after as u64);
            if start.elapsed() < target {
                tokio::time::sleep(target - start.elapsed()).await;
            }
            let sub = format!("projects/pp/subscriptions/sub{}", i);
            match s.delete_subscription(DeleteSubscriptionRequest { subscription: sub }).await {
                Ok(_) => {
                    deleted_at.insert(i, t0.elapsed().as_millis() as u64);
                }
                Err(e) => v("setup_failed", &["C14"], format!("DeleteSubscription: {}", e)),
            }
        }
        let total = Duration::from_secs(secs);
        if start.elapsed() < total {
            tokio::time::sleep(total - start.elapsed()).await;
        }
        let end_ms = t0.elapsed().as_millis() as u64;
        // final pulls on the push subscriptions
        let mut final_pull: HashMap<usize, Vec<String>> = HashMap::new();
        for (i, c) in cases.iter().enumerate() {
            if c.kind == 2 {
                continue;
            }
            let sub = format!("projects/{}/subscriptions/sub{}", proj(i), i);
            #[allow(deprecated)]
            if let Ok(r) = s.pull(PullRequest { subscription: sub, max_messages: 100, return_immediately: true }).await {
                final_pull.insert(i, r.into_inner().received_messages.into_iter().filter_map(|m| m.message.map(|m| m.message_id)).collect());
            }
        }
        let hits = st.lock().unwrap().hits.clone();
        let mut inconclusive = None;
        // ---------------- oracle ----------------
        for (i, c) in cases.iter().enumerate() {
            let path = format!("/c{}", i);
            let sub = format!("projects/{}/subscriptions/sub{}", proj(i), i);
            let mine: Vec<&Hit> = hits.iter().filter(|h| h.path == path).collect();
            if c.pull_only() {
                // pull-only: never POSTed to, neither by name nor at the endpoint of a rejected request
                if let Some(h) = hits.iter().find(|h| h.subscription.as_deref() == Some(sub.as_str()) || (matches!(c.kind, 5 | 6) && h.path == path)) {
                    v("pull_subscription_pushed", &["C14", "C17"], format!("{} has no push endpoint but a POST naming it arrived at {} ms on {}", sub, h.t_ms, h.path));
                }
                continue;
            }
            for pb in &published[i] {
                let hs: Vec<&&Hit> = mine.iter().filter(|h| h.msg_id.as_deref() == Some(pb.id.as_str()) || h.msg_id_dupe.as_deref() == Some(pb.id.as_str())).collect();
                if hs.is_empty() {
                    if let Some(d) = deleted_at.get(&i) {
                        if *d < pb.t_ms + 2_000 {
                            continue; // deleted before a push round could reasonably run
                        }
                    }
                    // was anything at all posted for this subscription?
                    let any_bad = mine.iter().any(|h| !h.json_ok || h.msg_id.is_none());
                    if any_bad {
                        v("push_payload_malformed", &["C14", "C09"], format!("{}: a POST arrived whose body is not the expected JSON (message id missing or body unparsable)", sub));
                    } else {
                        v("message_never_posted", &["C14"], format!("message {} of {} was never POSTed to its endpoint within {} ms", pb.id, sub, end_ms - pb.t_ms));
                    }
                    continue;
                }
                // payload checks on every POST
                for h in &hs {
                    if h.subscription.as_deref() != Some(sub.as_str()) {
                        v("push_names_wrong_subscription", &["C14", "C09"], format!("POST for message {} names subscription {:?}, expected {}", pb.id, h.subscription, sub));
                    }
                    if h.msg_id.as_deref() != Some(pb.id.as_str()) || h.msg_id_dupe.as_deref() != Some(pb.id.as_str()) {
                        v("push_message_id_mismatch", &["C14", "C09"], format!("POST for message {} carries messageId={:?} message_id={:?}", pb.id, h.msg_id, h.msg_id_dupe));
                    }
                    if h.data.as_deref() != Some(&pb.data[..]) {
                        v("push_data_mismatch", &["C14", "C09"], format!("POST for message {} of {}: base64 data decodes to {} bytes, published {} bytes", pb.id, sub, h.data.as_ref().map(|d| d.len() as i64).unwrap_or(-1), pb.data.len()));
                    }
                    if h.attrs.as_ref() != Some(&pb.attrs) {
                        v(
                            "push_attributes_mismatch",
                            &["C09"],
                            format!("POST for message {} of {} carries attributes {:?}, published {:?}", pb.id, sub, h.attrs.as_ref().map(|a| a.iter().take(3).cloned().collect::<Vec<_>>()), pb.attrs.iter().take(3).collect::<Vec<_>>()),
                        );
                    }
                }
                // retry / stop rules along the attempts
                let del = deleted_at.get(&i).cloned();
                // exclusive lease: no second POST while an earlier one is unanswered and young
                // (the POST follows the start of its lease by far less than 1.5 s)
                for (n, h) in hs.iter().enumerate() {
                    if let Some(nx) = hs.get(n + 1) {
                        let unanswered = h.answered_ms.map(|a| a > nx.t_ms).unwrap_or(true);
                        let silent = matches!(h.beh, Beh::Delayed200(_) | Beh::ReleaseAt(_) | Beh::Stall | Beh::Interim(_));
                        if silent && unanswered && nx.t_ms + 1_500 < h.t_ms + c.dl_ms() {
                            v("pushed_while_leased", &["C03", "C14"], format!("message {} of {} was POSTed at {} ms and again at {} ms although the first POST was still unanswered and its ack deadline had not elapsed", pb.id, sub, h.t_ms, nx.t_ms));
                            break;
                        }
                    }
                }
                for (n, h) in hs.iter().enumerate() {
                    let next = hs.get(n + 1);
                    if h.beh.accepting() {
                        // accepted (answer written well before the deadline): never again
                        let answered = h.answered_ms.unwrap_or(h.t_ms);
                        if answered + 1_000 < h.t_ms + c.dl_ms() {
                            if let Some(nx) = next {
                                let status = match &h.beh {
                                    Beh::Interim(c) => format!("status {}", c),
                                    Beh::Status(c) => format!("status {}", c),
                                    b => format!("{:?}", b),
                                };
                                v("accepted_message_posted_again", &["C14"], format!("message {} of {} was answered with {} at {} ms and POSTed again at {} ms", pb.id, sub, status, answered, nx.t_ms));
                            }
                        }
                        break;
                    } else {
                        // failure: must be POSTed again (unless the subscription was deleted meanwhile)
                        if next.is_none() {
                            let bound = if h.beh.answers_nothing() { c.dl_ms() + 6_000 } else { 6_000 };
                            if let Some(d) = del {
                                if d < h.t_ms + bound {
                                    break;
                                }
                            }
                            if end_ms >= h.t_ms + bound {
                                v("failed_push_not_retried", &["C14"], format!("message {} of {}: attempt {} at {} ms was answered with {:?} and no further POST arrived within {} ms", pb.id, sub, n + 1, h.t_ms, h.beh, end_ms - h.t_ms));
                            }
                        }
                    }
                }
                // accepted messages are gone from the subscription
                if let Some(last_acc) = hs.iter().find(|h| h.beh.accepting() && !matches!(h.beh, Beh::Interim(_))) {
                    if last_acc.answered_ms.map(|a| a + 1_000 < end_ms).unwrap_or(false) {
                        if let Some(fp) = final_pull.get(&i) {
                            if fp.contains(&pb.id) {
                                v("accepted_message_still_pullable", &["C14"], format!("message {} of {} was accepted by the endpoint but a final Pull still returns it", pb.id, sub));
                            }
                        }
                    }
                }
            }
            // deleted subscription: no POST later than one round after the delete response
            if let Some(d) = deleted_at.get(&i) {
                if let Some(h) = mine.iter().find(|h| h.t_ms > d + 1_500) {
                    v("pushed_after_delete", &["C14"], format!("{} was deleted at {} ms but a POST for it arrived at {} ms", sub, d, h.t_ms));
                }
            }
        }
        if hits.is_empty() && cases.iter().any(|c| c.kind != 1) {
            inconclusive = Some("the endpoint received no request at all (push loop not running?)".to_string());
        }
        BatchOut { violations, inconclusive, posts: hits.len() }
    });
    rt.shutdown_background();
    out
}

pub const ALPHABET: &[Beh] = &[
    Beh::Status(200),
    Beh::Status(201),
    Beh::Status(202),
    Beh::Status(204),
    Beh::Interim(102),
    Beh::Interim(100),
    Beh::Status(301),
    Beh::Status(400),
    Beh::Status(404),
    Beh::Status(429),
    Beh::Status(500),
    Beh::Status(503),
    Beh::Reset,
    Beh::Close,
    Beh::Stall,
    Beh::Delayed200(300),
];

fn plain() -> crate::case::Payload {
    crate::case::Payload::plain()
}

pub fn build_cases(tier: Tier, seed: u64, batch: u64) -> Vec<PushCase> {
    let mut cases = Vec::new();
    let mut x = seed.wrapping_mul(0x9E37_79B9_7F4A_7C15) ^ batch.wrapping_mul(0xD6E8_FEB8_6659_FD93) | 1;
    let mut next = move || {
        x ^= x << 13;
        x ^= x >> 7;
        x ^= x << 17;
        x
    };
    let payload = |k: u64| -> crate::case::Payload {
        match k % 8 {
            5 => crate::case::Payload { kind: 4, len: 4089, attrs: 0, odd: false },
            6 => crate::case::Payload { kind: 4, len: 10_000, attrs: 1, odd: false },
            7 => crate::case::Payload { kind: 4, len: 70_000, attrs: 0, odd: false },
            0 => plain(),
            1 => crate::case::Payload { kind: 0, len: 0, attrs: 3, odd: false },
            2 => crate::case::Payload { kind: 3, len: 0, attrs: 1, odd: true },
            3 => crate::case::Payload { kind: 4, len: 2000, attrs: 0, odd: false },
            _ => crate::case::Payload { kind: 1, len: 0, attrs: 2, odd: false },
        }
    };
    // every single behaviour, then "failure then accept", then pairs
    for (bi, b) in ALPHABET.iter().enumerate() {
        // every payload shape is pushed in every batch (the shapes cycle over the behaviours)
        cases.push(PushCase { script: vec![b.clone()], n_msgs: 1 + (next() % 2) as u8, kind: 0, delete_after_ms: 0, payload: payload(bi as u64), script_odd: None, dl: 0 });
    }
    let all_pairs: Vec<(Beh, Beh)> = ALPHABET.iter().flat_map(|a| ALPHABET.iter().map(move |b| (a.clone(), b.clone()))).collect();
    let want = match tier {
        Tier::Quick => 60usize,
        Tier::Thorough => 150usize,
    };
    let mut k = (batch as usize * 97) % all_pairs.len();
    while cases.len() < want - 21 {
        let (a, b) = all_pairs[k % all_pairs.len()].clone();
        k += match tier {
            Tier::Quick => 7,
            Tier::Thorough => 1,
        };
        if a.accepting() && !matches!(a, Beh::Interim(_)) {
            continue; // second element would never be used
        }
        let mut script = vec![a, b];
        if next() % 4 == 0 {
            script.insert(1, ALPHABET[(next() % ALPHABET.len() as u64) as usize].clone());
        }
        cases.push(PushCase { script, n_msgs: 1 + (next() % 3) as u8, kind: 0, delete_after_ms: 0, payload: payload(next()), script_odd: None, dl: 0 });
    }
    // one round with many messages and an endpoint that is slower than the pacing between
    // dispatches, two subscriptions on one topic, and mixed fates inside one round
    cases.push(PushCase { script: vec![Beh::Delayed200(300)], n_msgs: 60, kind: 0, delete_after_ms: 0, payload: plain(), script_odd: None, dl: 0 });
    cases.push(PushCase { script: vec![Beh::Delayed200(1_500)], n_msgs: 60, kind: 0, delete_after_ms: 0, payload: plain(), script_odd: None, dl: 0 });
    // an endpoint that holds a whole round and then answers all of it at the same moment
    cases.push(PushCase { script: vec![Beh::ReleaseAt(1_500)], n_msgs: 60, kind: 0, delete_after_ms: 0, payload: plain(), script_odd: None, dl: 0 });
    cases.push(PushCase { script: vec![Beh::Status(200)], n_msgs: 2, kind: 0, delete_after_ms: 0, payload: payload(next()), script_odd: None, dl: 0 });
    cases.push(PushCase { script: vec![Beh::Status(500), Beh::Status(204)], n_msgs: 0, kind: 4, delete_after_ms: 0, payload: plain(), script_odd: None, dl: 0 });
    cases.push(PushCase { script: vec![Beh::Status(200)], n_msgs: 2, kind: 0, delete_after_ms: 0, payload: plain(), script_odd: Some(vec![Beh::Stall, Beh::Status(200)]), dl: 0 });
    cases.push(PushCase { script: vec![Beh::Status(202)], n_msgs: 3, kind: 0, delete_after_ms: 0, payload: plain(), script_odd: Some(vec![Beh::Delayed200(300)]), dl: 0 });
    // longer ack deadlines with an endpoint slower than the default deadline
    cases.push(PushCase { script: vec![Beh::Delayed200(12_000)], n_msgs: 1, kind: 0, delete_after_ms: 0, payload: plain(), script_odd: None, dl: 30 });
    cases.push(PushCase { script: vec![Beh::Delayed200(12_000)], n_msgs: 2, kind: 0, delete_after_ms: 0, payload: plain(), script_odd: None, dl: 600 });
    // rejected CreateSubscription requests that carried a push endpoint
    cases.push(PushCase { script: vec![Beh::Status(200)], n_msgs: 2, kind: 5, delete_after_ms: 0, payload: plain(), script_odd: None, dl: 0 });
    cases.push(PushCase { script: vec![Beh::Status(200)], n_msgs: 2, kind: 6, delete_after_ms: 0, payload: plain(), script_odd: None, dl: 0 });
    // pull-only controls and deletions
    for j in 0..4 {
        if j < 2 {
            cases.push(PushCase { script: vec![Beh::Status(200)], n_msgs: 2, kind: 3, delete_after_ms: 0, payload: plain(), script_odd: None, dl: 0 });
        }
        cases.push(PushCase { script: vec![Beh::Status(200)], n_msgs: 2, kind: 1, delete_after_ms: 0, payload: plain(), script_odd: None, dl: 0 });
        cases.push(PushCase { script: vec![Beh::Status(500)], n_msgs: 2, kind: 2, delete_after_ms: 300 + j * 900, payload: plain(), script_odd: None, dl: 0 });
    }
    cases
}

pub fn nontrivial(c: &PushCase) -> bool {
    c.kind == 0 && (c.script.iter().any(|b| b.transport_fault()) || (c.script.len() >= 2 && !c.script[0].accepting() && c.script.iter().skip(1).any(|b| b.accepting())))
}

/// Worker entry for C14 (and the push part of C09).
pub fn push_check(ctx: &WorkerCtx, out: &mut WorkerOut, batches: u64) {
    if ctx.widx != 0 {
        return;
    }
    for b in 0..batches {
        let cases = build_cases(ctx.tier, ctx.seed, b);
        let _ = std::fs::write(&ctx.inflight, serde_json::to_vec(&json!({"engine":"push","cases":cases})).unwrap_or_default());
        let res = run_batch(&cases, 19);
        out.evaluations += cases.len() as u64;
        for c in &cases {
            if nontrivial(c) {
                out.fingerprints.push(fingerprint(c));
                if out.samples.len() < 4 {
                    out.samples.push(serde_json::to_value(c).unwrap());
                }
            }
            for bh in &c.script {
                out.class(&format!("behaviour/{:?}", bh));
            }
        }
        out.class(&format!("posts_received_by_endpoint={}", res.posts));
        if let Some(i) = res.inconclusive {
            out.inconclusive = Some(i);
        }
        for v in res.violations {
            if v.props.iter().any(|p| *p == ctx.prop) {
                if let Some(f) = match_finding(&ctx.findings, &ctx.prop, &v.rule, &v.detail) {
                    *out.known_hits.entry(format!("{}: {}", f.rule, f.description)).or_insert(0) += 1;
                    out.excluded += 1;
                    continue;
                }
                if out.failure.is_none() {
                    // minimise: re-run the single case the violation names, if it can be identified
                    out.failure = Some(Failure { rule: v.rule.clone(), detail: v.detail.clone(), engine: "push".into(), input: json!({"engine":"push","cases":cases}), trace: json!(null) });
                }
            } else {
                *out.other_hits.entry(format!("{}:{}", v.props.join("/"), v.rule)).or_insert(0) += 1;
            }
        }
        if out.failure.is_some() {
            break;
        }
    }
    // shrink the failing batch to the cases that matter (one subscription at a time)
    if let Some(f) = out.failure.clone() {
        if let Ok(cases) = serde_json::from_value::<Vec<PushCase>>(f.input.get("cases").cloned().unwrap_or(json!([]))) {
            // find the subscription index named in the detail
            if let Some(pos) = f.detail.find("subscriptions/sub") {
                let idx: String = f.detail[pos + "subscriptions/sub".len()..].chars().take_while(|c| c.is_ascii_digit()).collect();
                if let Ok(i) = idx.parse::<usize>() {
                    if i < cases.len() {
                        let single = if cases[i].kind == 4 && i > 0 { vec![cases[i - 1].clone(), cases[i].clone()] } else { vec![cases[i].clone()] };
                        let r = run_batch(&single, 19);
                        if let Some(v) = r.violations.iter().find(|v| v.rule == f.rule) {
                            out.failure = Some(Failure { rule: v.rule.clone(), detail: v.detail.clone(), engine: "push".into(), input: json!({"engine":"push","cases":single}), trace: json!(null) });
                        }
                    }
                }
            }
        }
    }
}

pub fn replay_push(input: &serde_json::Value) -> Result<Vec<Violation>, String> {
    let cases: Vec<PushCase> = serde_json::from_value(input.get("cases").cloned().ok_or("no cases")?).map_err(|e| e.to_string())?;
    Ok(run_batch(&cases, 19).violations)
}

// ------------------------------------------------------------------------------------
// Real-thread request storm (C07): the one place where requests run in parallel on a
// multi-thread runtime, so that blocking locks taken in different orders by different
// worker threads can meet. Not a pure function of the seed (real scheduling).

/// One storm: `tasks` client tasks, each issuing `ops` requests chosen by a seeded LCG over
/// 2 topics x 4 subscriptions (every third subscription is created with a push endpoint on a
/// closed port), against one Deltio with its push loop ticking every millisecond. Returns the
/// number of calls made and, if some call did not return within 10 s, what it was.
pub fn run_mt_storm(seed: u64, tasks: usize, ops: usize) -> (u64, Option<String>) {
    // on its own thread: if every worker thread of the storm's runtime ends up blocked (two
    // blocking locks taken in opposite orders), nothing inside that runtime can report it
    let (tx, rx) = std::sync::mpsc::channel();
    std::thread::spawn(move || {
        let _ = tx.send(run_mt_storm_inner(seed, tasks, ops));
    });
    match rx.recv_timeout(Duration::from_secs(60)) {
        Ok(r) => r,
        Err(_) => (0, Some("the storm did not come back within 60 s: the worker threads of the runtime are blocked (deadlock between blocking locks)".to_string())),
    }
}

fn run_mt_storm_inner(seed: u64, tasks: usize, ops: usize) -> (u64, Option<String>) {
    std::env::set_var("NO_PROXY", "127.0.0.1,localhost");
    let rt = tokio::runtime::Builder::new_multi_thread().worker_threads(4).enable_all().build().unwrap();
    let out = rt.block_on(async move {
        let app = Deltio::new();
        let routes = app.server_builder().into_service();
        tokio::spawn(app.push_loop(Duration::from_millis(1)).run());
        let calls = Arc::new(std::sync::atomic::AtomicU64::new(0));
        let stuck: Arc<Mutex<Option<String>>> = Arc::new(Mutex::new(None));
        let mut handles = Vec::new();
        for tix in 0..tasks {
            let routes = routes.clone();
            let calls = calls.clone();
            let stuck = stuck.clone();
            handles.push(tokio::spawn(async move {
                let mut p = PublisherClient::new(Wire::new(routes.clone()));
                let mut s = SubscriberClient::new(Wire::new(routes.clone()));
                let mut x = seed.wrapping_mul(0x9E37_79B9_7F4A_7C15).wrapping_add(tix as u64 + 1) | 1;
                let mut next = move || {
                    x ^= x << 13;
                    x ^= x >> 7;
                    x ^= x << 17;
                    x
                };
                let mut acks: Vec<String> = Vec::new();
                let mut own: Vec<String> = Vec::new();
                let mut ctr = 0u32;
                for _ in 0..ops {
                    let r = next();
                    let topic = format!("projects/mt/topics/top{}", (r >> 8) % 2);
                    let subi = (r >> 12) % 4;
                    let sub = format!("projects/mt/subscriptions/sub{}", subi);
                    let kind = r % 12;
                    let what = format!("task {} op kind {} on {} / {}", tix, kind, topic, sub);
                    calls.fetch_add(1, std::sync::atomic::Ordering::Relaxed);
                    let limit = Duration::from_secs(10);
                    #[allow(deprecated)]
                    let done = match kind {
                        0 => tokio::time::timeout(limit, p.create_topic(Topic { name: topic.clone(), ..Default::default() })).await.is_ok(),
                        1 => {
                            // a push subscription under a name of this task's own: the create succeeds,
                            // so the push registry keeps changing while the push loop walks it
                            ctr += 1;
                            let name = format!("projects/mt/subscriptions/t{}n{}", tix, ctr);
                            own.push(name.clone());
                            let push_config = Some(PushConfig { push_endpoint: "http://127.0.0.1:1/never".into(), ..Default::default() });
                            tokio::time::timeout(limit, s.create_subscription(Subscription { name, topic: topic.clone(), ack_deadline_seconds: 10, push_config, ..Default::default() })).await.is_ok()
                        }
                        2 => {
                            let push_config = if subi % 3 == 0 { Some(PushConfig { push_endpoint: "http://127.0.0.1:1/never".into(), ..Default::default() }) } else { None };
                            tokio::time::timeout(limit, s.create_subscription(Subscription { name: sub.clone(), topic: topic.clone(), ack_deadline_seconds: 10, push_config, ..Default::default() })).await.is_ok()
                        }
                        3 | 4 => tokio::time::timeout(limit, p.publish(PublishRequest { topic: topic.clone(), messages: vec![PubsubMessage { data: vec![1, 2, 3], ..Default::default() }] })).await.is_ok(),
                        5 | 6 => match tokio::time::timeout(limit, s.pull(PullRequest { subscription: sub.clone(), max_messages: 5, return_immediately: true })).await {
                            Ok(Ok(r)) => {
                                acks = r.into_inner().received_messages.into_iter().map(|m| m.ack_id).collect();
                                true
                            }
                            Ok(Err(_)) => true,
                            Err(_) => false,
                        },
                        7 => tokio::time::timeout(limit, s.acknowledge(AcknowledgeRequest { subscription: sub.clone(), ack_ids: std::mem::take(&mut acks) })).await.is_ok(),
                        8 => tokio::time::timeout(limit, s.get_subscription(GetSubscriptionRequest { subscription: sub.clone() })).await.is_ok(),
                        9 => tokio::time::timeout(limit, s.list_subscriptions(ListSubscriptionsRequest { project: "projects/mt".into(), page_size: 100, page_token: String::new() })).await.is_ok(),
                        10 => {
                            let name = if (r >> 20) % 2 == 0 { own.pop().unwrap_or(sub.clone()) } else { sub.clone() };
                            tokio::time::timeout(limit, s.delete_subscription(DeleteSubscriptionRequest { subscription: name })).await.is_ok()
                        }
                        _ => {
                            if (r >> 20) % 4 == 0 {
                                tokio::time::timeout(limit, p.delete_topic(DeleteTopicRequest { topic: topic.clone() })).await.is_ok()
                            } else {
                                tokio::time::timeout(limit, p.get_topic(GetTopicRequest { topic: topic.clone() })).await.is_ok()
                            }
                        }
                    };
                    if !done {
                        let mut g = stuck.lock().unwrap();
                        if g.is_none() {
                            *g = Some(what);
                        }
                        return;
                    }
                }
            }));
        }
        // the storm as a whole has its own limit: blocked worker threads may keep tasks from
        // even reaching their own timeouts
        let all = async {
            for h in handles {
                let _ = h.await;
            }
        };
        let finished = tokio::time::timeout(Duration::from_secs(40), all).await.is_ok();
        let mut why = stuck.lock().unwrap().clone();
        if !finished && why.is_none() {
            why = Some("the storm did not finish within 40 s (worker threads blocked)".to_string());
        }
        (calls.load(std::sync::atomic::Ordering::Relaxed), why)
    });
    rt.shutdown_background();
    out
}

/// Worker entry of the C07 real-thread stage.
pub fn mt_storm_check(ctx: &WorkerCtx, out: &mut WorkerOut, rounds: u64) {
    if ctx.widx != 0 {
        return;
    }
    for r in 0..rounds {
        let seed = ctx.seed.wrapping_mul(1_000_003).wrapping_add(r);
        let input = json!({"engine":"mt_storm","seed":seed,"tasks":8,"ops":120});
        let _ = std::fs::write(&ctx.inflight, serde_json::to_vec(&input).unwrap_or_default());
        let (calls, stuck) = run_mt_storm(seed, 8, 120);
        out.evaluations += calls;
        out.class("mt_storm/round");
        if let Some(what) = stuck {
            out.failure = Some(Failure {
                rule: "call_never_returned_mt".into(),
                detail: format!("on a 4-thread runtime with the push loop running, a request did not return within 10 s: {}", what),
                engine: "mt_storm".into(),
                input,
                trace: json!(null),
            });
            return;
        }
    }
}

pub fn replay_mt_storm(input: &serde_json::Value) -> Result<Vec<Violation>, String> {
    let seed = input.get("seed").and_then(|s| s.as_u64()).ok_or("no seed")?;
    let tasks = input.get("tasks").and_then(|s| s.as_u64()).unwrap_or(8) as usize;
    let ops = input.get("ops").and_then(|s| s.as_u64()).unwrap_or(120) as usize;
    // real scheduling: try a few times
    for k in 0..5 {
        if let (_, Some(what)) = run_mt_storm(seed.wrapping_add(k), tasks, ops) {
            return Ok(vec![Violation { rule: "call_never_returned_mt".into(), props: vec!["C07".into()], at: 0, detail: what }]);
        }
    }
    Ok(vec![])
}

// ------------------------------------------------------------------------------------
// Real-thread deletion storm (C12): idle StreamingPulls and request loops on a
// subscription that is deleted, on a multi-thread runtime.

/// `rounds` rounds of: create a subscription, open `streams` idle StreamingPulls and a few
/// Acknowledge loops on it, delete it. Every stream must end and every loop must see an
/// error status within 10 s. Returns (streams opened, what got stuck).
pub fn run_mt_delete_storm(seed: u64, rounds: usize, streams: usize) -> (u64, Option<String>) {
    let (tx, rx) = std::sync::mpsc::channel();
    std::thread::spawn(move || {
        let rt = tokio::runtime::Builder::new_multi_thread().worker_threads(4).enable_all().build().unwrap();
        let out = rt.block_on(async move {
            let app = Deltio::new();
            let routes = app.server_builder().into_service();
            let mut p = PublisherClient::new(Wire::new(routes.clone()));
            let mut s = SubscriberClient::new(Wire::new(routes.clone()));
            let topic = "projects/md/topics/t".to_string();
            let _ = p.create_topic(Topic { name: topic.clone(), ..Default::default() }).await;
            let mut opened = 0u64;
            for r in 0..rounds {
                let sub = format!("projects/md/subscriptions/s{}", r);
                if s.create_subscription(Subscription { name: sub.clone(), topic: topic.clone(), ack_deadline_seconds: 10, ..Default::default() }).await.is_err() {
                    return (opened, Some(format!("round {}: CreateSubscription failed", r)));
                }
                let mut hs = Vec::new();
                for k in 0..streams {
                    let routes = routes.clone();
                    let sub = sub.clone();
                    let close_send = (seed.wrapping_add(r as u64 + k as u64)) % 3 == 0;
                    opened += 1;
                    hs.push(tokio::spawn(async move {
                        let mut c = SubscriberClient::new(Wire::new(routes));
                        let (txr, rxr) = tokio::sync::mpsc::channel::<StreamingPullRequest>(4);
                        let _ = txr.send(StreamingPullRequest { subscription: sub, stream_ack_deadline_seconds: 10, max_outstanding_messages: 10, ..Default::default() }).await;
                        let keep = if close_send { None } else { Some(txr) };
                        let stream = futures::stream::unfold(rxr, |mut rx| async move { rx.recv().await.map(|m| (m, rx)) });
                        let res = match c.streaming_pull(stream).await {
                            Ok(resp) => {
                                let mut inner = resp.into_inner();
                                loop {
                                    match inner.message().await {
                                        Ok(Some(_)) => continue,
                                        Ok(None) => break "ended without status".to_string(),
                                        Err(st) => break format!("{:?}", st.code()),
                                    }
                                }
                            }
                            Err(st) => format!("{:?}", st.code()),
                        };
                        drop(keep);
                        res
                    }));
                }
                let mut loops = Vec::new();
                for _ in 0..3 {
                    let routes = routes.clone();
                    let sub = sub.clone();
                    loops.push(tokio::spawn(async move {
                        let mut c = SubscriberClient::new(Wire::new(routes));
                        for _ in 0..200_000u32 {
                            if c.acknowledge(AcknowledgeRequest { subscription: sub.clone(), ack_ids: vec!["999999".into()] }).await.is_err() {
                                return true;
                            }
                            tokio::task::yield_now().await;
                        }
                        false
                    }));
                }
                // let the streams reach their wait
                for _ in 0..((seed as usize + r) % 5) {
                    tokio::task::yield_now().await;
                }
                if (seed as usize + r) % 2 == 0 {
                    tokio::time::sleep(Duration::from_micros(200)).await;
                }
                match tokio::time::timeout(Duration::from_secs(10), s.delete_subscription(DeleteSubscriptionRequest { subscription: sub.clone() })).await {
                    Ok(_) => {}
                    Err(_) => return (opened, Some(format!("round {}: DeleteSubscription did not return within 10 s", r))),
                }
                for (k, h) in hs.into_iter().enumerate() {
                    match tokio::time::timeout(Duration::from_secs(10), h).await {
                        Ok(_) => {}
                        Err(_) => return (opened, Some(format!("round {}: StreamingPull {} of {} was still open 10 s after DeleteSubscription had returned", r, k, sub))),
                    }
                }
                for h in loops {
                    match tokio::time::timeout(Duration::from_secs(10), h).await {
                        Ok(_) => {}
                        Err(_) => return (opened, Some(format!("round {}: an Acknowledge on {} did not return within 10 s of the deletion", r, sub))),
                    }
                }
            }
            (opened, None)
        });
        rt.shutdown_background();
        let _ = tx.send(out);
    });
    match rx.recv_timeout(Duration::from_secs(600)) {
        Ok(r) => r,
        Err(_) => (0, Some("the deletion storm did not come back within 600 s".to_string())),
    }
}

pub fn mt_delete_check(ctx: &WorkerCtx, out: &mut WorkerOut, rounds: usize) {
    // four workers run storms of their own (different seeds), the others do nothing
    if ctx.widx >= 4 {
        return;
    }
    let seed = ctx.seed.wrapping_mul(7_919).wrapping_add(ctx.widx);
    let input = json!({"engine":"mt_delete_storm","seed":seed,"rounds":rounds,"streams":6});
    let _ = std::fs::write(&ctx.inflight, serde_json::to_vec(&input).unwrap_or_default());
    let (opened, stuck) = run_mt_delete_storm(seed, rounds, 6);
    out.evaluations += opened;
    out.class("mt_delete_storm/run");
    if let Some(what) = stuck {
        out.failure = Some(Failure { rule: "not_released_mt".into(), detail: format!("on a 4-thread runtime: {}", what), engine: "mt_delete_storm".into(), input, trace: json!(null) });
    }
}

pub fn replay_mt_delete(input: &serde_json::Value) -> Result<Vec<Violation>, String> {
    let seed = input.get("seed").and_then(|s| s.as_u64()).ok_or("no seed")?;
    let rounds = input.get("rounds").and_then(|s| s.as_u64()).unwrap_or(300) as usize;
    let streams = input.get("streams").and_then(|s| s.as_u64()).unwrap_or(6) as usize;
    for k in 0..4 {
        if let (_, Some(what)) = run_mt_delete_storm(seed.wrapping_add(k), rounds, streams) {
            return Ok(vec![Violation { rule: "not_released_mt".into(), props: vec!["C12".into()], at: 0, detail: what }]);
        }
    }
    Ok(vec![])
}

// ------------------------------------------------------------------------------------
// Real-thread publish storm (C08, C09) and list storm (C13): answers, not only liveness.

/// `publishers` tasks publish `batches` requests of `per_batch` messages each to one topic with
/// two subscriptions, in parallel on a 4-worker runtime; afterwards everything is pulled (one
/// consumer per subscription). Returns (messages published, violations as (rule, props, detail)).
pub fn run_mt_publish_storm(seed: u64, publishers: usize, batches: usize, per_batch: usize) -> (u64, Vec<(String, Vec<&'static str>, String)>) {
    let (tx, rx) = std::sync::mpsc::channel();
    std::thread::spawn(move || {
        let rt = tokio::runtime::Builder::new_multi_thread().worker_threads(4).enable_all().build().unwrap();
        let out = rt.block_on(async move {
            let mut bad: Vec<(String, Vec<&'static str>, String)> = Vec::new();
            let app = Deltio::new();
            let routes = app.server_builder().into_service();
            let mut p = PublisherClient::new(Wire::new(routes.clone()));
            let mut s = SubscriberClient::new(Wire::new(routes.clone())).max_decoding_message_size(usize::MAX);
            let topic = "projects/ps/topics/t".to_string();
            let subs = ["projects/ps/subscriptions/a".to_string(), "projects/ps/subscriptions/b".to_string()];
            let _ = p.create_topic(Topic { name: topic.clone(), ..Default::default() }).await;
            for sub in &subs {
                let _ = s.create_subscription(Subscription { name: sub.clone(), topic: topic.clone(), ack_deadline_seconds: 600, ..Default::default() }).await;
            }
            // payload = (publisher, batch, position) so that every delivery can be matched
            let mut hs = Vec::new();
            for pi in 0..publishers {
                let routes = routes.clone();
                let topic = topic.clone();
                hs.push(tokio::spawn(async move {
                    let mut c = PublisherClient::new(Wire::new(routes));
                    let mut got: Vec<(Vec<u8>, String)> = Vec::new();
                    for b in 0..batches {
                        let n = 1 + (seed as usize + pi * 7 + b * 3) % per_batch;
                        let msgs: Vec<PubsubMessage> = (0..n).map(|k| PubsubMessage { data: format!("{}:{}:{}", pi, b, k).into_bytes(), ..Default::default() }).collect();
                        let datas: Vec<Vec<u8>> = msgs.iter().map(|m| m.data.clone()).collect();
                        match tokio::time::timeout(Duration::from_secs(20), c.publish(PublishRequest { topic: topic.clone(), messages: msgs })).await {
                            Ok(Ok(r)) => {
                                let ids = r.into_inner().message_ids;
                                if ids.len() != datas.len() {
                                    return Err(format!("Publish of {} messages returned {} ids", datas.len(), ids.len()));
                                }
                                got.extend(datas.into_iter().zip(ids));
                            }
                            Ok(Err(e)) => return Err(format!("Publish failed: {}", e)),
                            Err(_) => return Err("Publish did not return within 20 s".to_string()),
                        }
                        if b % 5 == 0 {
                            tokio::task::yield_now().await;
                        }
                    }
                    Ok(got)
                }));
            }
            // meanwhile: requests that keep one subscription's mailbox full without touching its messages
            let stop = Arc::new(std::sync::atomic::AtomicBool::new(false));
            let mut noise = Vec::new();
            for _ in 0..24 {
                let routes = routes.clone();
                let stop = stop.clone();
                let sub = subs[1].clone();
                noise.push(tokio::spawn(async move {
                    let mut c = SubscriberClient::new(Wire::new(routes));
                    while !stop.load(std::sync::atomic::Ordering::Relaxed) {
                        let _ = c.modify_ack_deadline(ModifyAckDeadlineRequest { subscription: sub.clone(), ack_ids: vec!["999999999".into()], ack_deadline_seconds: 30 }).await;
                        tokio::task::yield_now().await;
                    }
                }));
            }
            let mut by_data: HashMap<Vec<u8>, String> = HashMap::new();
            let mut ids_seen: HashMap<String, Vec<u8>> = HashMap::new();
            for h in hs {
                match h.await {
                    Ok(Ok(got)) => {
                        for (d, id) in got {
                            if let Some(other) = ids_seen.insert(id.clone(), d.clone()) {
                                bad.push(("duplicate_message_id_mt".into(), vec!["C09", "C08"], format!("id {} was returned for two messages ({:?} and {:?})", id, String::from_utf8_lossy(&other), String::from_utf8_lossy(&d))));
                            }
                            by_data.insert(d, id);
                        }
                    }
                    Ok(Err(e)) => bad.push(("publish_failed_mt".into(), vec!["C07"], e)),
                    Err(_) => bad.push(("publish_failed_mt".into(), vec!["C07"], "publisher task panicked".into())),
                }
            }
            stop.store(true, std::sync::atomic::Ordering::Relaxed);
            for h in noise {
                let _ = tokio::time::timeout(Duration::from_secs(20), h).await;
            }
            let total = by_data.len() as u64;
            // drain both subscriptions with one consumer each
            for sub in &subs {
                let mut seen: Vec<(u128, Vec<u8>)> = Vec::new();
                let mut last_ack: u64 = 0;
                loop {
                    #[allow(deprecated)]
                    let r = match tokio::time::timeout(Duration::from_secs(20), s.pull(PullRequest { subscription: sub.clone(), max_messages: 700, return_immediately: true })).await {
                        Ok(Ok(r)) => r.into_inner().received_messages,
                        _ => {
                            bad.push(("pull_failed_mt".into(), vec!["C07"], format!("Pull on {} failed or did not return", sub)));
                            break;
                        }
                    };
                    if r.is_empty() {
                        break;
                    }
                    for m in r {
                        let a: u64 = m.ack_id.parse().unwrap_or(0);
                        if a <= last_ack {
                            bad.push(("ack_id_not_increasing_mt".into(), vec!["C03"], format!("{}: ack id {} after {}", sub, a, last_ack)));
                        }
                        last_ack = a;
                        if let Some(msg) = m.message {
                            seen.push((msg.message_id.parse().unwrap_or(0), msg.data));
                        }
                    }
                }
                if seen.len() as u64 != total {
                    bad.push(("fanout_count_mt".into(), vec!["C01"], format!("{} received {} of {} published messages", sub, seen.len(), total)));
                }
                // the id of a delivery is the id Publish returned for that message
                for (id, d) in &seen {
                    match by_data.get(d) {
                        Some(pid) if pid.parse::<u128>().ok() == Some(*id) => {}
                        Some(pid) => {
                            bad.push(("publish_response_id_mismatch_mt".into(), vec!["C08", "C09"], format!("{}: message {:?} delivered with id {}, Publish returned {}", sub, String::from_utf8_lossy(d), id, pid)));
                            break;
                        }
                        None => {
                            bad.push(("unknown_message_mt".into(), vec!["C09"], format!("{}: delivered a message nobody published: {:?}", sub, String::from_utf8_lossy(d))));
                            break;
                        }
                    }
                }
                // first deliveries (nothing was pulled twice) in id order
                if let Some(w) = seen.windows(2).find(|w| w[1].0 < w[0].0) {
                    bad.push(("first_delivery_order_mt".into(), vec!["C08"], format!("{}: message id {} delivered after id {}", sub, w[1].0, w[0].0)));
                }
            }
            (total, bad)
        });
        rt.shutdown_background();
        let _ = tx.send(out);
    });
    match rx.recv_timeout(Duration::from_secs(180)) {
        Ok(r) => r,
        Err(_) => (0, vec![("storm_stuck_mt".into(), vec!["C07"], "the publish storm did not come back within 180 s".into())]),
    }
}

/// Topics are created and deleted by two tasks while two others list, on real threads; once all
/// have finished, a walk must yield exactly the topics that exist.
pub fn run_mt_list_storm(seed: u64, rounds: usize) -> (u64, Vec<(String, Vec<&'static str>, String)>) {
    let (tx, rx) = std::sync::mpsc::channel();
    std::thread::spawn(move || {
        let rt = tokio::runtime::Builder::new_multi_thread().worker_threads(4).enable_all().build().unwrap();
        let out = rt.block_on(async move {
            let mut bad = Vec::new();
            let app = Deltio::new();
            let routes = app.server_builder().into_service();
            let mut p = PublisherClient::new(Wire::new(routes.clone()));
            for i in 0..300 {
                let _ = p.create_topic(Topic { name: format!("projects/ls/topics/base{}", i), ..Default::default() }).await;
            }
            let mut calls = 0u64;
            for r in 0..rounds {
                let mut hs = Vec::new();
                for w in 0..2usize {
                    let routes = routes.clone();
                    hs.push(tokio::spawn(async move {
                        let mut c = PublisherClient::new(Wire::new(routes));
                        let name = format!("projects/ls/topics/r{}w{}", r, w);
                        let _ = c.create_topic(Topic { name: name.clone(), ..Default::default() }).await;
                        if (seed as usize + r + w) % 3 == 0 {
                            let _ = c.delete_topic(DeleteTopicRequest { topic: name }).await;
                            false
                        } else {
                            true
                        }
                    }));
                }
                let mut ls = Vec::new();
                for _ in 0..2 {
                    let routes = routes.clone();
                    ls.push(tokio::spawn(async move {
                        let mut c = PublisherClient::new(Wire::new(routes));
                        let _ = c.list_topics(ListTopicsRequest { project: "projects/ls".into(), page_size: 1000, page_token: String::new() }).await;
                    }));
                }
                let mut kept = 0;
                for h in hs {
                    if let Ok(true) = h.await {
                        kept += 1;
                    }
                }
                for l in ls {
                    let _ = l.await;
                }
                calls += 6;
                let _ = kept;
                // quiet now: walk
                let mut names: Vec<String> = Vec::new();
                let mut token = String::new();
                loop {
                    match p.list_topics(ListTopicsRequest { project: "projects/ls".into(), page_size: 1000, page_token: token.clone() }).await {
                        Ok(resp) => {
                            let resp = resp.into_inner();
                            names.extend(resp.topics.into_iter().map(|t| t.name));
                            token = resp.next_page_token;
                            if token.is_empty() {
                                break;
                            }
                        }
                        Err(e) => {
                            bad.push(("list_failed_mt".into(), vec!["C13"], format!("ListTopics failed: {}", e)));
                            break;
                        }
                    }
                }
                // what exists: every name answers GetTopic
                let mut expect: Vec<String> = (0..300).map(|i| format!("projects/ls/topics/base{}", i)).collect();
                for rr in 0..=r {
                    for w in 0..2usize {
                        if (seed as usize + rr + w) % 3 != 0 {
                            expect.push(format!("projects/ls/topics/r{}w{}", rr, w));
                        }
                    }
                }
                let mut a = names.clone();
                a.sort();
                let mut b = expect.clone();
                b.sort();
                if a != b {
                    let missing: Vec<&String> = b.iter().filter(|x| !a.contains(x)).take(3).collect();
                    let extra: Vec<&String> = a.iter().filter(|x| !b.contains(x)).take(3).collect();
                    bad.push(("walk_mismatch_mt".into(), vec!["C13", "C10"], format!("round {}: a quiet ListTopics walk yielded {} names, {} exist; missing {:?}, not existing {:?}", r, a.len(), b.len(), missing, extra)));
                    break;
                }
            }
            (calls, bad)
        });
        rt.shutdown_background();
        let _ = tx.send(out);
    });
    match rx.recv_timeout(Duration::from_secs(180)) {
        Ok(r) => r,
        Err(_) => (0, vec![("storm_stuck_mt".into(), vec!["C07"], "the list storm did not come back within 180 s".into())]),
    }
}

/// Worker entry for the answer-checking storms: `which` = "publish" (C08, C09) or "list" (C13).
pub fn mt_answer_check(ctx: &WorkerCtx, out: &mut WorkerOut, which: &str, rounds: u64) {
    if ctx.widx >= 2 {
        return;
    }
    for r in 0..rounds {
        let seed = ctx.seed.wrapping_mul(31).wrapping_add(r * 2 + ctx.widx);
        let input = json!({"engine":"mt_answer_storm","which":which,"seed":seed});
        let _ = std::fs::write(&ctx.inflight, serde_json::to_vec(&input).unwrap_or_default());
        let (n, bad) = if which == "publish" { run_mt_publish_storm(seed, 8, 40, 60) } else { run_mt_list_storm(seed, 40) };
        out.evaluations += n;
        out.class(&format!("mt_{}_storm/round", which));
        for (rule, props, detail) in bad {
            if props.iter().any(|p| *p == ctx.prop) {
                if out.failure.is_none() {
                    out.failure = Some(Failure { rule, detail: format!("on a 4-thread runtime: {}", detail), engine: "mt_answer_storm".into(), input: input.clone(), trace: json!(null) });
                }
            } else {
                *out.other_hits.entry(format!("{}:{}", props.join("/"), rule)).or_insert(0) += 1;
            }
        }
        if out.failure.is_some() {
            return;
        }
    }
}

pub fn replay_mt_answer(input: &serde_json::Value) -> Result<Vec<Violation>, String> {
    let seed = input.get("seed").and_then(|s| s.as_u64()).ok_or("no seed")?;
    let which = input.get("which").and_then(|s| s.as_str()).unwrap_or("publish").to_string();
    for k in 0..4 {
        let (_, bad) = if which == "publish" { run_mt_publish_storm(seed.wrapping_add(k), 8, 40, 60) } else { run_mt_list_storm(seed.wrapping_add(k), 40) };
        if !bad.is_empty() {
            return Ok(bad.into_iter().map(|(rule, props, detail)| Violation { rule, props: props.into_iter().map(|p| p.to_string()).collect(), at: 0, detail }).collect());
        }
    }
    Ok(vec![])
}

// ------------------------------------------------------------------------------------
// Push endpoints that are almost URLs (C17): accepted or rejected, they must not take the
// push loop (or anything else) down.

/// One well-behaved push subscription plus CreateSubscription requests whose push endpoint
/// starts like a URL and is none. Afterwards the good subscription must still be pushed to,
/// the push loop must still be running and ordinary requests must still be answered.
pub fn run_push_endpoint_probe() -> Vec<(String, String)> {
    std::env::set_var("NO_PROXY", "127.0.0.1,localhost");
    let (tx, rx) = std::sync::mpsc::channel();
    std::thread::spawn(move || {
        let rt = tokio::runtime::Builder::new_multi_thread().worker_threads(4).enable_all().build().unwrap();
        let out = rt.block_on(async move {
            let mut bad: Vec<(String, String)> = Vec::new();
            let listener = tokio::net::TcpListener::bind("127.0.0.1:0").await.unwrap();
            let port = listener.local_addr().unwrap().port();
            let st = Arc::new(Mutex::new(EndpointState { t0: Instant::now(), scripts: HashMap::new(), scripts_odd: HashMap::new(), order: HashMap::new(), attempts: HashMap::new(), hits: Vec::new() }));
            {
                let st = st.clone();
                tokio::spawn(async move {
                    loop {
                        if let Ok((sock, _)) = listener.accept().await {
                            tokio::spawn(serve_conn(sock, st.clone()));
                        }
                    }
                });
            }
            let app = Deltio::new();
            let routes = app.server_builder().into_service();
            let mut p = PublisherClient::new(Wire::new(routes.clone()));
            let mut s = SubscriberClient::new(Wire::new(routes.clone()));
            let push_loop = tokio::spawn(app.push_loop(Duration::from_millis(20)).run());
            let topic = "projects/ep/topics/t".to_string();
            let _ = p.create_topic(Topic { name: topic.clone(), ..Default::default() }).await;
            let good = "projects/ep/subscriptions/good".to_string();
            let _ = s
                .create_subscription(Subscription { name: good.clone(), topic: topic.clone(), ack_deadline_seconds: 10, push_config: Some(PushConfig { push_endpoint: format!("http://127.0.0.1:{}/good", port), ..Default::default() }), ..Default::default() })
                .await;
            let near_misses = ["http://localhost:99999/push", "http://", "https//example.com/push", "http://exa mple.com/x", "http://[::1", "http:///nohost", "https://", "http://%zz/"];
            for (i, ep) in near_misses.iter().enumerate() {
                let name = format!("projects/ep/subscriptions/odd{}", i);
                match tokio::time::timeout(Duration::from_secs(10), s.create_subscription(Subscription { name, topic: topic.clone(), ack_deadline_seconds: 10, push_config: Some(PushConfig { push_endpoint: ep.to_string(), ..Default::default() }), ..Default::default() })).await {
                    Ok(_) => {}
                    Err(_) => bad.push(("request_never_answered".into(), format!("CreateSubscription with push endpoint {:?} did not return", ep))),
                }
            }
            tokio::time::sleep(Duration::from_millis(300)).await;
            let _ = p.publish(PublishRequest { topic: topic.clone(), messages: vec![PubsubMessage { data: b"probe".to_vec(), ..Default::default() }] }).await;
            let start = Instant::now();
            let mut posted = false;
            while start.elapsed() < Duration::from_secs(6) {
                if st.lock().unwrap().hits.iter().any(|h| h.path == "/good") {
                    posted = true;
                    break;
                }
                tokio::time::sleep(Duration::from_millis(50)).await;
            }
            if push_loop.is_finished() {
                bad.push(("push_loop_died".into(), "after CreateSubscription requests with near-miss push endpoints the push loop task has ended (panicked)".into()));
            } else if !posted {
                bad.push(("push_starved".into(), "after CreateSubscription requests with near-miss push endpoints a well-behaved push subscription was not POSTed to within 6 s".into()));
            }
            match tokio::time::timeout(Duration::from_secs(10), s.get_subscription(GetSubscriptionRequest { subscription: good.clone() })).await {
                Ok(Ok(_)) => {}
                Ok(Err(e)) => bad.push(("health_probe_failed".into(), format!("GetSubscription of the good subscription afterwards: {}", e))),
                Err(_) => bad.push(("request_never_answered".into(), "GetSubscription afterwards did not return".into())),
            }
            bad
        });
        rt.shutdown_background();
        let _ = tx.send(out);
    });
    rx.recv_timeout(Duration::from_secs(90)).unwrap_or_else(|_| vec![("probe_stuck".into(), "the push endpoint probe did not come back within 90 s".into())])
}

pub fn push_endpoint_check(ctx: &WorkerCtx, out: &mut WorkerOut) {
    if ctx.widx != 0 {
        return;
    }
    let input = json!({"engine":"push_endpoint_probe"});
    let _ = std::fs::write(&ctx.inflight, serde_json::to_vec(&input).unwrap_or_default());
    out.evaluations += 8;
    out.class("push_endpoint_probe/run");
    if let Some((rule, detail)) = run_push_endpoint_probe().into_iter().next() {
        out.failure = Some(Failure { rule, detail, engine: "push_endpoint_probe".into(), input, trace: json!(null) });
    }
}

pub fn replay_push_endpoint(_input: &serde_json::Value) -> Result<Vec<Violation>, String> {
    Ok(run_push_endpoint_probe().into_iter().map(|(rule, detail)| Violation { rule, props: vec!["C17".into()], at: 0, detail }).collect())
}

// ------------------------------------------------------------------------------------
// Wire probe (C15, C07): the one check that goes through a real connection (TCP loopback,
// HTTP/2), because per-connection admission settings of the server builder are invisible to
// the in-process transport.

/// 40 long-poll Pulls parked on empty subscriptions over ONE client connection; a Pull over the
/// same connection on a subscription that has a message, and a Publish, must still be answered.
pub fn run_wire_probe() -> Vec<(String, String)> {
    let (tx, rx) = std::sync::mpsc::channel();
    std::thread::spawn(move || {
        let rt = tokio::runtime::Builder::new_multi_thread().worker_threads(4).enable_all().build().unwrap();
        let out = rt.block_on(async move {
            let mut bad: Vec<(String, String)> = Vec::new();
            let app = Deltio::new();
            let listener = tokio::net::TcpListener::bind("127.0.0.1:0").await.unwrap();
            let port = listener.local_addr().unwrap().port();
            let incoming = tokio_stream::wrappers::TcpListenerStream::new(listener);
            let server = app.server_builder().serve_with_incoming(incoming);
            tokio::spawn(server);
            let channel = match tonic::transport::Endpoint::from_shared(format!("http://127.0.0.1:{}", port)).unwrap().connect().await {
                Ok(c) => c,
                Err(e) => return vec![("wire_connect_failed".to_string(), format!("{}", e))],
            };
            let mut p = PublisherClient::new(channel.clone());
            let mut s = SubscriberClient::new(channel.clone());
            let topic = "projects/wp/topics/t".to_string();
            let quiet_topic = "projects/wp/topics/quiet".to_string();
            let _ = p.create_topic(Topic { name: topic.clone(), ..Default::default() }).await;
            let _ = p.create_topic(Topic { name: quiet_topic.clone(), ..Default::default() }).await;
            for i in 0..40 {
                let _ = s.create_subscription(Subscription { name: format!("projects/wp/subscriptions/idle{}", i), topic: quiet_topic.clone(), ack_deadline_seconds: 10, ..Default::default() }).await;
            }
            let busy = "projects/wp/subscriptions/busy".to_string();
            let _ = s.create_subscription(Subscription { name: busy.clone(), topic: topic.clone(), ack_deadline_seconds: 10, ..Default::default() }).await;
            let _ = p.publish(PublishRequest { topic: topic.clone(), messages: vec![PubsubMessage { data: b"x".to_vec(), ..Default::default() }] }).await;
            // park the long polls (same connection: clones of one channel)
            let mut parked = Vec::new();
            for i in 0..40 {
                let mut c = SubscriberClient::new(channel.clone());
                parked.push(tokio::spawn(async move {
                    #[allow(deprecated)]
                    let _ = c.pull(PullRequest { subscription: format!("projects/wp/subscriptions/idle{}", i), max_messages: 1, return_immediately: false }).await;
                }));
            }
            tokio::time::sleep(Duration::from_millis(500)).await;
            #[allow(deprecated)]
            match tokio::time::timeout(Duration::from_secs(8), s.pull(PullRequest { subscription: busy.clone(), max_messages: 1, return_immediately: false })).await {
                Ok(Ok(r)) => {
                    if r.into_inner().received_messages.is_empty() {
                        bad.push(("wire_pull_empty".into(), "Pull on a subscription with a message returned nothing".into()));
                    }
                }
                Ok(Err(e)) => bad.push(("wire_pull_failed".into(), format!("{}", e))),
                Err(_) => bad.push(("request_starved_on_connection".into(), "with 40 long-poll Pulls parked on one connection, a Pull over the same connection on a subscription that has a message was not answered within 8 s".into())),
            }
            match tokio::time::timeout(Duration::from_secs(8), p.publish(PublishRequest { topic: quiet_topic.clone(), messages: vec![PubsubMessage { data: b"wake".to_vec(), ..Default::default() }] })).await {
                Ok(_) => {}
                Err(_) => bad.push(("request_starved_on_connection".into(), "with 40 long-poll Pulls parked on one connection, a Publish over the same connection was not answered within 8 s".into())),
            }
            for h in parked {
                h.abort();
            }
            bad
        });
        rt.shutdown_background();
        let _ = tx.send(out);
    });
    rx.recv_timeout(Duration::from_secs(90)).unwrap_or_else(|_| vec![("probe_stuck".into(), "the wire probe did not come back within 90 s".into())])
}

pub fn wire_check(ctx: &WorkerCtx, out: &mut WorkerOut) {
    if ctx.widx != 0 {
        return;
    }
    let input = json!({"engine":"wire_probe"});
    let _ = std::fs::write(&ctx.inflight, serde_json::to_vec(&input).unwrap_or_default());
    out.evaluations += 42;
    out.class("wire_probe/run");
    if let Some((rule, detail)) = run_wire_probe().into_iter().next() {
        out.failure = Some(Failure { rule, detail, engine: "wire_probe".into(), input, trace: json!(null) });
    }
}

pub fn replay_wire(_input: &serde_json::Value) -> Result<Vec<Violation>, String> {
    Ok(run_wire_probe().into_iter().map(|(rule, detail)| Violation { rule, props: vec!["C15".into(), "C07".into()], at: 0, detail }).collect())
}
