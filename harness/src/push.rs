//! Engine PUSH (C14, push half of C09): Deltio with its real push loop against a scripted
//! local HTTP endpoint on loopback TCP, real clock. Many cases share one batch: each case is
//! one push subscription with its own URL path and its own fault script.
use crate::model::Violation;
use crate::runner::*;
use crate::sim::{make_payload, Wire, MARK};
use base64::Engine;
use deltio::pubsub_proto::publisher_client::PublisherClient;
use deltio::pubsub_proto::subscriber_client::SubscriberClient;
use deltio::pubsub_proto::*;
use deltio::Deltio;
use serde::{Deserialize, Serialize};
use serde_json::json;
use std::collections::HashMap;
use std::sync::{Arc, Mutex};
use std::time::{Duration, Instant};
use tokio::io::{AsyncReadExt, AsyncWriteExt};

#[derive(Clone, Debug, Serialize, Deserialize, PartialEq)]
pub enum Beh {
    /// answer with this status (complete response)
    Status(u16),
    /// answer with a 1xx status line and then nothing
    Interim(u16),
    /// read the request, then reset the connection
    Reset,
    /// read the request, then close without answering
    Close,
    /// read the request and never answer
    Stall,
    /// answer 200 after this many milliseconds
    Delayed200(u32),
}

impl Beh {
    fn accepting(&self) -> bool {
        matches!(self, Beh::Status(200 | 201 | 202 | 204) | Beh::Delayed200(_) | Beh::Interim(102))
    }
    fn answers_nothing(&self) -> bool {
        matches!(self, Beh::Stall | Beh::Interim(_))
    }
    fn transport_fault(&self) -> bool {
        matches!(self, Beh::Reset | Beh::Close | Beh::Stall)
    }
}

#[derive(Clone, Debug, Serialize, Deserialize, PartialEq)]
pub struct PushCase {
    /// behaviour per attempt (per message); the last one repeats
    pub script: Vec<Beh>,
    pub n_msgs: u8,
    /// 0 push subscription, 1 pull-only control subscription on the same topic,
    /// 2 push subscription deleted after `delete_after_ms`,
    /// 3 push subscription whose topic and then itself are deleted before anything is
    ///   published; both names are then re-created, the subscription WITHOUT a push endpoint,
    /// 4 a second push subscription (own path, own script) on the topic of the previous case
    pub kind: u8,
    pub delete_after_ms: u32,
    pub payload: crate::case::Payload,
    /// script for every second message of this subscription (by order of first arrival)
    #[serde(default)]
    pub script_odd: Option<Vec<Beh>>,
}

#[derive(Clone, Debug)]
struct Hit {
    t_ms: u64,
    path: String,
    subscription: Option<String>,
    msg_id: Option<String>,
    msg_id_dupe: Option<String>,
    data: Option<Vec<u8>>,
    attrs: Option<Vec<(String, String)>>,
    json_ok: bool,
    beh: Beh,
    answered_ms: Option<u64>,
}

struct EndpointState {
    t0: Instant,
    scripts: HashMap<String, Vec<Beh>>,
    scripts_odd: HashMap<String, Vec<Beh>>,
    order: HashMap<String, Vec<String>>,
    attempts: HashMap<(String, String), usize>,
    hits: Vec<Hit>,
}

fn status_line(code: u16) -> String {
    let reason = match code {
        100 => "Continue",
        102 => "Processing",
        199 => "Misc",
        200 => "OK",
        201 => "Created",
        202 => "Accepted",
        204 => "No Content",
        301 => "Moved Permanently",
        304 => "Not Modified",
        400 => "Bad Request",
        404 => "Not Found",
        429 => "Too Many Requests",
        500 => "Internal Server Error",
        503 => "Service Unavailable",
        _ => "Status",
    };
    format!("HTTP/1.1 {} {}\r\n", code, reason)
}

async fn serve_conn(mut sock: tokio::net::TcpStream, st: Arc<Mutex<EndpointState>>) {
    let mut buf: Vec<u8> = Vec::new();
    loop {
        // read one request
        let header_end = loop {
            if let Some(p) = buf.windows(4).position(|w| w == b"\r\n\r\n") {
                break Some(p + 4);
            }
            let mut tmp = [0u8; 8192];
            match sock.read(&mut tmp).await {
                Ok(0) | Err(_) => break None,
                Ok(n) => buf.extend_from_slice(&tmp[..n]),
            }
        };
        let header_end = match header_end {
            Some(h) => h,
            None => return,
        };
        let head = String::from_utf8_lossy(&buf[..header_end]).to_string();
        let path = head.lines().next().and_then(|l| l.split_whitespace().nth(1)).unwrap_or("").to_string();
        let clen = head
            .lines()
            .find_map(|l| {
                let (k, v) = l.split_once(':')?;
                if k.eq_ignore_ascii_case("content-length") {
                    v.trim().parse::<usize>().ok()
                } else {
                    None
                }
            })
            .unwrap_or(0);
        while buf.len() < header_end + clen {
            let mut tmp = [0u8; 65536];
            match sock.read(&mut tmp).await {
                Ok(0) | Err(_) => return,
                Ok(n) => buf.extend_from_slice(&tmp[..n]),
            }
        }
        let body: Vec<u8> = buf[header_end..header_end + clen].to_vec();
        buf.drain(..header_end + clen);
        // decode
        let parsed: Option<serde_json::Value> = serde_json::from_slice(&body).ok();
        let (mut subscription, mut msg_id, mut msg_id_dupe, mut data, mut attrs) = (None, None, None, None, None);
        if let Some(v) = &parsed {
            subscription = v.get("subscription").and_then(|s| s.as_str()).map(|s| s.to_string());
            if let Some(m) = v.get("message") {
                msg_id = m.get("messageId").and_then(|s| s.as_str()).map(|s| s.to_string());
                msg_id_dupe = m.get("message_id").and_then(|s| s.as_str()).map(|s| s.to_string());
                data = m.get("data").and_then(|s| s.as_str()).and_then(|s| base64::engine::general_purpose::STANDARD.decode(s).ok());
                attrs = m.get("attributes").and_then(|a| a.as_object()).map(|o| {
                    let mut v: Vec<(String, String)> = o.iter().map(|(k, v)| (k.clone(), v.as_str().unwrap_or("").to_string())).collect();
                    v.sort();
                    v
                });
            }
        }
        let (beh, hit_idx) = {
            let mut g = st.lock().unwrap();
            let key = (path.clone(), msg_id.clone().unwrap_or_default());
            let n = *g.attempts.get(&key).unwrap_or(&0);
            g.attempts.insert(key, n + 1);
            let mid = msg_id.clone().unwrap_or_default();
            let ord = {
                let o = g.order.entry(path.clone()).or_default();
                match o.iter().position(|x| *x == mid) {
                    Some(p) => p,
                    None => {
                        o.push(mid.clone());
                        o.len() - 1
                    }
                }
            };
            let script = match (ord % 2 == 1, g.scripts_odd.get(&path)) {
                (true, Some(s)) => s.clone(),
                _ => g.scripts.get(&path).cloned().unwrap_or_else(|| vec![Beh::Status(200)]),
            };
            let beh = script[n.min(script.len() - 1)].clone();
            let t_ms = g.t0.elapsed().as_millis() as u64;
            g.hits.push(Hit { t_ms, path: path.clone(), subscription, msg_id, msg_id_dupe, data, attrs, json_ok: parsed.is_some(), beh: beh.clone(), answered_ms: None });
            (beh, g.hits.len() - 1)
        };
        let mark_answered = |st: &Arc<Mutex<EndpointState>>| {
            let mut g = st.lock().unwrap();
            let t = g.t0.elapsed().as_millis() as u64;
            g.hits[hit_idx].answered_ms = Some(t);
        };
        match beh {
            Beh::Status(code) => {
                let resp = if code == 204 || code == 304 { format!("{}\r\n", status_line(code)) } else { format!("{}Content-Length: 0\r\n\r\n", status_line(code)) };
                if sock.write_all(resp.as_bytes()).await.is_err() {
                    return;
                }
                let _ = sock.flush().await;
                mark_answered(&st);
            }
            Beh::Delayed200(ms) => {
                tokio::time::sleep(Duration::from_millis(ms as u64)).await;
                if sock.write_all(format!("{}Content-Length: 0\r\n\r\n", status_line(200)).as_bytes()).await.is_err() {
                    return;
                }
                let _ = sock.flush().await;
                mark_answered(&st);
            }
            Beh::Interim(code) => {
                let _ = sock.write_all(format!("{}\r\n", status_line(code)).as_bytes()).await;
                let _ = sock.flush().await;
                mark_answered(&st);
                // then silence: hold the connection
                tokio::time::sleep(Duration::from_secs(3600)).await;
                return;
            }
            Beh::Reset => {
                let _ = sock.set_linger(Some(Duration::from_secs(0)));
                drop(sock);
                return;
            }
            Beh::Close => {
                let _ = sock.shutdown().await;
                return;
            }
            Beh::Stall => {
                tokio::time::sleep(Duration::from_secs(3600)).await;
                return;
            }
        }
    }
}

pub struct BatchOut {
    pub violations: Vec<Violation>,
    pub inconclusive: Option<String>,
    pub posts: usize,
}

/// Runs one batch. `secs` is the observation time after the publishes.
pub fn run_batch(cases: &[PushCase], secs: u64) -> BatchOut {
    std::env::set_var("NO_PROXY", "127.0.0.1,localhost");
    std::env::set_var("no_proxy", "127.0.0.1,localhost");
    let rt = tokio::runtime::Builder::new_multi_thread().worker_threads(4).enable_all().build().unwrap();
    let out = rt.block_on(async move {
        let listener = tokio::net::TcpListener::bind("127.0.0.1:0").await.unwrap();
        let port = listener.local_addr().unwrap().port();
        let st = Arc::new(Mutex::new(EndpointState { t0: Instant::now(), scripts: HashMap::new(), scripts_odd: HashMap::new(), order: HashMap::new(), attempts: HashMap::new(), hits: Vec::new() }));
        for (i, c) in cases.iter().enumerate() {
            st.lock().unwrap().scripts.insert(format!("/c{}", i), c.script.clone());
            if let Some(o) = &c.script_odd {
                st.lock().unwrap().scripts_odd.insert(format!("/c{}", i), o.clone());
            }
        }
        // kind 4 shares the topic of the case before it
        let topic_idx = |i: usize| if cases[i].kind == 4 && i > 0 { i - 1 } else { i };
        {
            let st = st.clone();
            tokio::spawn(async move {
                loop {
                    if let Ok((sock, _)) = listener.accept().await {
                        let _ = sock.set_nodelay(true);
                        tokio::spawn(serve_conn(sock, st.clone()));
                    }
                }
            });
        }
        let app = Deltio::new();
        let routes = app.server_builder().into_service();
        let mut p = PublisherClient::new(Wire::new(routes.clone()));
        let mut s = SubscriberClient::new(Wire::new(routes.clone()));
        tokio::spawn(app.push_loop(Duration::from_millis(20)).run());
        let mut violations: Vec<Violation> = Vec::new();
        let mut v = |rule: &str, props: &[&str], detail: String| violations.push(Violation { rule: rule.into(), props: props.iter().map(|s| s.to_string()).collect(), at: 0, detail });
        // create resources
        struct Pub {
            id: String,
            data: Vec<u8>,
            attrs: Vec<(String, String)>,
            t_ms: u64,
        }
        let mut published: Vec<Vec<Pub>> = Vec::new();
        let mut mkey = 0u64;
        for (i, c) in cases.iter().enumerate() {
            let topic = format!("projects/pp/topics/top{}", topic_idx(i));
            let sub = format!("projects/pp/subscriptions/sub{}", i);
            if topic_idx(i) == i {
                if let Err(e) = p.create_topic(Topic { name: topic.clone(), ..Default::default() }).await {
                    v("setup_failed", &["C14"], format!("CreateTopic: {}", e));
                }
            }
            let push_config = if c.kind == 1 { None } else { Some(PushConfig { push_endpoint: format!("http://127.0.0.1:{}/c{}", port, i), ..Default::default() }) };
            if let Err(e) = s.create_subscription(Subscription { name: sub.clone(), topic: topic.clone(), ack_deadline_seconds: 10, push_config, ..Default::default() }).await {
                v("setup_failed", &["C14"], format!("CreateSubscription: {}", e));
            }
        }
        // kind 3: delete (topic first), then re-create under the same names as pull-only
        for (i, c) in cases.iter().enumerate() {
            if c.kind != 3 {
                continue;
            }
            let topic = format!("projects/pp/topics/top{}", i);
            let sub = format!("projects/pp/subscriptions/sub{}", i);
            let _ = p.delete_topic(DeleteTopicRequest { topic: topic.clone() }).await;
            let _ = s.delete_subscription(DeleteSubscriptionRequest { subscription: sub.clone() }).await;
            if let Err(e) = p.create_topic(Topic { name: topic.clone(), ..Default::default() }).await {
                v("setup_failed", &["C14"], format!("re-CreateTopic: {}", e));
            }
            if let Err(e) = s.create_subscription(Subscription { name: sub.clone(), topic: topic.clone(), ack_deadline_seconds: 10, push_config: None, ..Default::default() }).await {
                v("setup_failed", &["C14"], format!("re-CreateSubscription: {}", e));
            }
        }
        let t0 = st.lock().unwrap().t0;
        for (i, c) in cases.iter().enumerate() {
            let topic = format!("projects/pp/topics/top{}", i);
            let mut msgs = Vec::new();
            let mut recs = Vec::new();
            if c.kind == 4 && i > 0 {
                // same messages as the sibling subscription
                let prev: Vec<Pub> = published[i - 1].iter().map(|p| Pub { id: p.id.clone(), data: p.data.clone(), attrs: p.attrs.clone(), t_ms: p.t_ms }).collect();
                published.push(prev);
                continue;
            }
            for _ in 0..c.n_msgs {
                mkey += 1;
                let (data, attrs, _) = make_payload(MARK | mkey, &c.payload);
                msgs.push(PubsubMessage { data: data.clone(), attributes: attrs.iter().cloned().collect(), ..Default::default() });
                recs.push((data, attrs));
            }
            match p.publish(PublishRequest { topic, messages: msgs }).await {
                Ok(r) => {
                    let ids = r.into_inner().message_ids;
                    let now = t0.elapsed().as_millis() as u64;
                    published.push(recs.into_iter().zip(ids).map(|((data, attrs), id)| Pub { id, data, attrs, t_ms: now }).collect());
                }
                Err(e) => {
                    v("setup_failed", &["C14"], format!("Publish: {}", e));
                    published.push(vec![]);
                }
            }
        }
        // deletions in mid-flight
        let mut deleted_at: HashMap<usize, u64> = HashMap::new();
        let mut dels: Vec<(u32, usize)> = cases.iter().enumerate().filter(|(_, c)| c.kind == 2).map(|(i, c)| (c.delete_after_ms, i)).collect();
        dels.sort();
        let start = Instant::now();
        for (after, i) in dels {
            let target = Duration::from_millis(after as u64);
            if start.elapsed() < target {
                tokio::time::sleep(target - start.elapsed()).await;
            }
            let sub = format!("projects/pp/subscriptions/sub{}", i);
            match s.delete_subscription(DeleteSubscriptionRequest { subscription: sub }).await {
                Ok(_) => {
                    deleted_at.insert(i, t0.elapsed().as_millis() as u64);
                }
                Err(e) => v("setup_failed", &["C14"], format!("DeleteSubscription: {}", e)),
            }
        }
        let total = Duration::from_secs(secs);
        if start.elapsed() < total {
            tokio::time::sleep(total - start.elapsed()).await;
        }
        let end_ms = t0.elapsed().as_millis() as u64;
        // final pulls on the push subscriptions
        let mut final_pull: HashMap<usize, Vec<String>> = HashMap::new();
        for (i, c) in cases.iter().enumerate() {
            if c.kind == 2 {
                continue;
            }
            let sub = format!("projects/pp/subscriptions/sub{}", i);
            #[allow(deprecated)]
            if let Ok(r) = s.pull(PullRequest { subscription: sub, max_messages: 100, return_immediately: true }).await {
                final_pull.insert(i, r.into_inner().received_messages.into_iter().filter_map(|m| m.message.map(|m| m.message_id)).collect());
            }
        }
        let hits = st.lock().unwrap().hits.clone();
        let mut inconclusive = None;
        // ---------------- oracle ----------------
        for (i, c) in cases.iter().enumerate() {
            let path = format!("/c{}", i);
            let sub = format!("projects/pp/subscriptions/sub{}", i);
            let mine: Vec<&Hit> = hits.iter().filter(|h| h.path == path).collect();
            if c.kind == 1 || c.kind == 3 {
                // pull-only: never POSTed to
                if let Some(h) = hits.iter().find(|h| h.subscription.as_deref() == Some(sub.as_str())) {
                    v("pull_subscription_pushed", &["C14"], format!("{} has no push endpoint but a POST naming it arrived at {} ms", sub, h.t_ms));
                }
                continue;
            }
            for pb in &published[i] {
                let hs: Vec<&&Hit> = mine.iter().filter(|h| h.msg_id.as_deref() == Some(pb.id.as_str()) || h.msg_id_dupe.as_deref() == Some(pb.id.as_str())).collect();
                if hs.is_empty() {
                    if let Some(d) = deleted_at.get(&i) {
                        if *d < pb.t_ms + 2_000 {
                            continue; // deleted before a push round could reasonably run
                        }
                    }
                    // was anything at all posted for this subscription?
                    let any_bad = mine.iter().any(|h| !h.json_ok || h.msg_id.is_none());
                    if any_bad {
                        v("push_payload_malformed", &["C14", "C09"], format!("{}: a POST arrived whose body is not the expected JSON (message id missing or body unparsable)", sub));
                    } else {
                        v("message_never_posted", &["C14"], format!("message {} of {} was never POSTed to its endpoint within {} ms", pb.id, sub, end_ms - pb.t_ms));
                    }
                    continue;
                }
                // payload checks on every POST
                for h in &hs {
                    if h.subscription.as_deref() != Some(sub.as_str()) {
                        v("push_names_wrong_subscription", &["C14", "C09"], format!("POST for message {} names subscription {:?}, expected {}", pb.id, h.subscription, sub));
                    }
                    if h.msg_id.as_deref() != Some(pb.id.as_str()) || h.msg_id_dupe.as_deref() != Some(pb.id.as_str()) {
                        v("push_message_id_mismatch", &["C14", "C09"], format!("POST for message {} carries messageId={:?} message_id={:?}", pb.id, h.msg_id, h.msg_id_dupe));
                    }
                    if h.data.as_deref() != Some(&pb.data[..]) {
                        v("push_data_mismatch", &["C14", "C09"], format!("POST for message {} of {}: base64 data decodes to {} bytes, published {} bytes", pb.id, sub, h.data.as_ref().map(|d| d.len() as i64).unwrap_or(-1), pb.data.len()));
                    }
                    if h.attrs.as_ref() != Some(&pb.attrs) {
                        v(
                            "push_attributes_mismatch",
                            &["C09"],
                            format!("POST for message {} of {} carries attributes {:?}, published {:?}", pb.id, sub, h.attrs.as_ref().map(|a| a.iter().take(3).cloned().collect::<Vec<_>>()), pb.attrs.iter().take(3).collect::<Vec<_>>()),
                        );
                    }
                }
                // retry / stop rules along the attempts
                let del = deleted_at.get(&i).cloned();
                // exclusive lease: no second POST while an earlier one is unanswered and young
                // (the POST follows the start of its lease by far less than 1.5 s)
                for (n, h) in hs.iter().enumerate() {
                    if let Some(nx) = hs.get(n + 1) {
                        let unanswered = h.answered_ms.map(|a| a > nx.t_ms).unwrap_or(true);
                        let silent = matches!(h.beh, Beh::Delayed200(_) | Beh::Stall | Beh::Interim(_));
                        if silent && unanswered && nx.t_ms < h.t_ms + 8_500 {
                            v("pushed_while_leased", &["C03"], format!("message {} of {} was POSTed at {} ms and again at {} ms although the first POST was still unanswered and its ack deadline had not elapsed", pb.id, sub, h.t_ms, nx.t_ms));
                            break;
                        }
                    }
                }
                for (n, h) in hs.iter().enumerate() {
                    let next = hs.get(n + 1);
                    if h.beh.accepting() {
                        // accepted (answer written well before the deadline): never again
                        let answered = h.answered_ms.unwrap_or(h.t_ms);
                        if answered < h.t_ms + 9_000 {
                            if let Some(nx) = next {
                                let status = match &h.beh {
                                    Beh::Interim(c) => format!("status {}", c),
                                    Beh::Status(c) => format!("status {}", c),
                                    b => format!("{:?}", b),
                                };
                                v("accepted_message_posted_again", &["C14"], format!("message {} of {} was answered with {} at {} ms and POSTed again at {} ms", pb.id, sub, status, answered, nx.t_ms));
                            }
                        }
                        break;
                    } else {
                        // failure: must be POSTed again (unless the subscription was deleted meanwhile)
                        if next.is_none() {
                            let bound = if h.beh.answers_nothing() { 10_000 + 6_000 } else { 6_000 };
                            if let Some(d) = del {
                                if d < h.t_ms + bound {
                                    break;
                                }
                            }
                            if end_ms >= h.t_ms + bound {
                                v("failed_push_not_retried", &["C14"], format!("message {} of {}: attempt {} at {} ms was answered with {:?} and no further POST arrived within {} ms", pb.id, sub, n + 1, h.t_ms, h.beh, end_ms - h.t_ms));
                            }
                        }
                    }
                }
                // accepted messages are gone from the subscription
                if let Some(last_acc) = hs.iter().find(|h| h.beh.accepting() && !matches!(h.beh, Beh::Interim(_))) {
                    if last_acc.answered_ms.map(|a| a + 1_000 < end_ms).unwrap_or(false) {
                        if let Some(fp) = final_pull.get(&i) {
                            if fp.contains(&pb.id) {
                                v("accepted_message_still_pullable", &["C14"], format!("message {} of {} was accepted by the endpoint but a final Pull still returns it", pb.id, sub));
                            }
                        }
                    }
                }
            }
            // deleted subscription: no POST later than one round after the delete response
            if let Some(d) = deleted_at.get(&i) {
                if let Some(h) = mine.iter().find(|h| h.t_ms > d + 1_500) {
                    v("pushed_after_delete", &["C14"], format!("{} was deleted at {} ms but a POST for it arrived at {} ms", sub, d, h.t_ms));
                }
            }
        }
        if hits.is_empty() && cases.iter().any(|c| c.kind != 1) {
            inconclusive = Some("the endpoint received no request at all (push loop not running?)".to_string());
        }
        BatchOut { violations, inconclusive, posts: hits.len() }
    });
    rt.shutdown_background();
    out
}

pub const ALPHABET: &[Beh] = &[
    Beh::Status(200),
    Beh::Status(201),
    Beh::Status(202),
    Beh::Status(204),
    Beh::Interim(102),
    Beh::Interim(100),
    Beh::Status(301),
    Beh::Status(400),
    Beh::Status(404),
    Beh::Status(429),
    Beh::Status(500),
    Beh::Status(503),
    Beh::Reset,
    Beh::Close,
    Beh::Stall,
    Beh::Delayed200(300),
];

fn plain() -> crate::case::Payload {
    crate::case::Payload::plain()
}

pub fn build_cases(tier: Tier, seed: u64, batch: u64) -> Vec<PushCase> {
    let mut cases = Vec::new();
    let mut x = seed.wrapping_mul(0x9E37_79B9_7F4A_7C15) ^ batch.wrapping_mul(0xD6E8_FEB8_6659_FD93) | 1;
    let mut next = move || {
        x ^= x << 13;
        x ^= x >> 7;
        x ^= x << 17;
        x
    };
    let payload = |k: u64| -> crate::case::Payload {
        match k % 8 {
            5 => crate::case::Payload { kind: 4, len: 4089, attrs: 0, odd: false },
            6 => crate::case::Payload { kind: 4, len: 10_000, attrs: 1, odd: false },
            7 => crate::case::Payload { kind: 4, len: 70_000, attrs: 0, odd: false },
            0 => plain(),
            1 => crate::case::Payload { kind: 0, len: 0, attrs: 3, odd: false },
            2 => crate::case::Payload { kind: 3, len: 0, attrs: 1, odd: true },
            3 => crate::case::Payload { kind: 4, len: 2000, attrs: 0, odd: false },
            _ => crate::case::Payload { kind: 1, len: 0, attrs: 2, odd: false },
        }
    };
    // every single behaviour, then "failure then accept", then pairs
    for b in ALPHABET {
        cases.push(PushCase { script: vec![b.clone()], n_msgs: 1 + (next() % 2) as u8, kind: 0, delete_after_ms: 0, payload: payload(next()), script_odd: None });
    }
    let all_pairs: Vec<(Beh, Beh)> = ALPHABET.iter().flat_map(|a| ALPHABET.iter().map(move |b| (a.clone(), b.clone()))).collect();
    let want = match tier {
        Tier::Quick => 60usize,
        Tier::Thorough => 150usize,
    };
    let mut k = (batch as usize * 97) % all_pairs.len();
    while cases.len() < want - 16 {
        let (a, b) = all_pairs[k % all_pairs.len()].clone();
        k += match tier {
            Tier::Quick => 7,
            Tier::Thorough => 1,
        };
        if a.accepting() && !matches!(a, Beh::Interim(_)) {
            continue; // second element would never be used
        }
        let mut script = vec![a, b];
        if next() % 4 == 0 {
            script.insert(1, ALPHABET[(next() % ALPHABET.len() as u64) as usize].clone());
        }
        cases.push(PushCase { script, n_msgs: 1 + (next() % 3) as u8, kind: 0, delete_after_ms: 0, payload: payload(next()), script_odd: None });
    }
    // one round with many messages and an endpoint that is slower than the pacing between
    // dispatches, two subscriptions on one topic, and mixed fates inside one round
    cases.push(PushCase { script: vec![Beh::Delayed200(300)], n_msgs: 60, kind: 0, delete_after_ms: 0, payload: plain(), script_odd: None });
    cases.push(PushCase { script: vec![Beh::Delayed200(1_500)], n_msgs: 60, kind: 0, delete_after_ms: 0, payload: plain(), script_odd: None });
    cases.push(PushCase { script: vec![Beh::Status(200)], n_msgs: 2, kind: 0, delete_after_ms: 0, payload: payload(next()), script_odd: None });
    cases.push(PushCase { script: vec![Beh::Status(500), Beh::Status(204)], n_msgs: 0, kind: 4, delete_after_ms: 0, payload: plain(), script_odd: None });
    cases.push(PushCase { script: vec![Beh::Status(200)], n_msgs: 2, kind: 0, delete_after_ms: 0, payload: plain(), script_odd: Some(vec![Beh::Stall, Beh::Status(200)]) });
    cases.push(PushCase { script: vec![Beh::Status(202)], n_msgs: 3, kind: 0, delete_after_ms: 0, payload: plain(), script_odd: Some(vec![Beh::Delayed200(300)]) });
    // pull-only controls and deletions
    for j in 0..4 {
        if j < 2 {
            cases.push(PushCase { script: vec![Beh::Status(200)], n_msgs: 2, kind: 3, delete_after_ms: 0, payload: plain(), script_odd: None });
        }
        cases.push(PushCase { script: vec![Beh::Status(200)], n_msgs: 2, kind: 1, delete_after_ms: 0, payload: plain(), script_odd: None });
        cases.push(PushCase { script: vec![Beh::Status(500)], n_msgs: 2, kind: 2, delete_after_ms: 300 + j * 900, payload: plain(), script_odd: None });
    }
    cases
}

pub fn nontrivial(c: &PushCase) -> bool {
    c.kind == 0 && (c.script.iter().any(|b| b.transport_fault()) || (c.script.len() >= 2 && !c.script[0].accepting() && c.script.iter().skip(1).any(|b| b.accepting())))
}

/// Worker entry for C14 (and the push part of C09).
pub fn push_check(ctx: &WorkerCtx, out: &mut WorkerOut, batches: u64) {
    if ctx.widx != 0 {
        return;
    }
    for b in 0..batches {
        let cases = build_cases(ctx.tier, ctx.seed, b);
        let _ = std::fs::write(&ctx.inflight, serde_json::to_vec(&json!({"engine":"push","cases":cases})).unwrap_or_default());
        let res = run_batch(&cases, 19);
        out.evaluations += cases.len() as u64;
        for c in &cases {
            if nontrivial(c) {
                out.fingerprints.push(fingerprint(c));
                if out.samples.len() < 4 {
                    out.samples.push(serde_json::to_value(c).unwrap());
                }
            }
            for bh in &c.script {
                out.class(&format!("behaviour/{:?}", bh));
            }
        }
        out.class(&format!("posts_received_by_endpoint={}", res.posts));
        if let Some(i) = res.inconclusive {
            out.inconclusive = Some(i);
        }
        for v in res.violations {
            if v.props.iter().any(|p| *p == ctx.prop) {
                if let Some(f) = match_finding(&ctx.findings, &ctx.prop, &v.rule, &v.detail) {
                    *out.known_hits.entry(format!("{}: {}", f.rule, f.description)).or_insert(0) += 1;
                    out.excluded += 1;
                    continue;
                }
                if out.failure.is_none() {
                    // minimise: re-run the single case the violation names, if it can be identified
                    out.failure = Some(Failure { rule: v.rule.clone(), detail: v.detail.clone(), engine: "push".into(), input: json!({"engine":"push","cases":cases}), trace: json!(null) });
                }
            } else {
                *out.other_hits.entry(format!("{}:{}", v.props.join("/"), v.rule)).or_insert(0) += 1;
            }
        }
        if out.failure.is_some() {
            break;
        }
    }
    // shrink the failing batch to the cases that matter (one subscription at a time)
    if let Some(f) = out.failure.clone() {
        if let Ok(cases) = serde_json::from_value::<Vec<PushCase>>(f.input.get("cases").cloned().unwrap_or(json!([]))) {
            // find the subscription index named in the detail
            if let Some(pos) = f.detail.find("subscriptions/sub") {
                let idx: String = f.detail[pos + "subscriptions/sub".len()..].chars().take_while(|c| c.is_ascii_digit()).collect();
                if let Ok(i) = idx.parse::<usize>() {
                    if i < cases.len() {
                        let single = if cases[i].kind == 4 && i > 0 { vec![cases[i - 1].clone(), cases[i].clone()] } else { vec![cases[i].clone()] };
                        let r = run_batch(&single, 19);
                        if let Some(v) = r.violations.iter().find(|v| v.rule == f.rule) {
                            out.failure = Some(Failure { rule: v.rule.clone(), detail: v.detail.clone(), engine: "push".into(), input: json!({"engine":"push","cases":single}), trace: json!(null) });
                        }
                    }
                }
            }
        }
    }
}

pub fn replay_push(input: &serde_json::Value) -> Result<Vec<Violation>, String> {
    let cases: Vec<PushCase> = serde_json::from_value(input.get("cases").cloned().ok_or("no cases")?).map_err(|e| e.to_string())?;
    Ok(run_batch(&cases, 19).violations)
}
