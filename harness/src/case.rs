//! The generated object: a `Case` is a history of operations plus every source of
//! schedule non-determinism (select seed, rounding phase, fan-out order, yield points).
use crate::trace::Req;
use serde::{Deserialize, Serialize};

/// Topic reference into the small name pools (`projects/p{p}/topics/top{i}`).
#[derive(Clone, Copy, Debug, Serialize, Deserialize, PartialEq, Eq, Hash, PartialOrd, Ord)]
pub struct T {
    pub p: u8,
    pub i: u8,
}
/// Subscription reference (`projects/p{p}/subscriptions/sub{i}`).
#[derive(Clone, Copy, Debug, Serialize, Deserialize, PartialEq, Eq, Hash, PartialOrd, Ord)]
pub struct S {
    pub p: u8,
    pub i: u8,
}

impl T {
    pub fn name(&self) -> String {
        format!("projects/p{}/topics/top{}", self.p, self.i)
    }
}
impl S {
    pub fn name(&self) -> String {
        format!("projects/p{}/subscriptions/sub{}", self.p, self.i)
    }
}
pub fn project_name(p: u8) -> String {
    format!("projects/p{}", p)
}

/// How an ack ID is chosen for Ack / Modify requests.
#[derive(Clone, Debug, Serialize, Deserialize, PartialEq)]
pub enum AckRef {
    /// i-th most recent delivery observed on this subscription name (monotone index map).
    Recent(u16),
    /// i-th delivery observed on this subscription name counted from the first.
    Own(u16),
    /// i-th delivery observed on any *other* subscription name.
    Foreign(u16),
    /// A number that was never issued.
    Unknown(u32),
    /// A malformed string from a fixed pool.
    Malformed(u8),
}

pub const MALFORMED_ACK_IDS: &[&str] = &[
    "", "bogus", "-1", "1x", " 1", "1 ", "1.0", "18446744073709551616", "٣", "0x10", "1e3", "١٢",
    // 2^64 + k: not a u64; a parser that wraps would take them for the ack ids 1, 2, 3
    "18446744073709551617", "18446744073709551618", "18446744073709551619", "36893488147419103233",
];

/// Payload shape of a published message.
#[derive(Clone, Debug, Serialize, Deserialize, PartialEq)]
pub struct Payload {
    /// 0 = 8-byte marker only; 1 = empty data (no marker); 2 = one byte; 3 = all 256 byte
    /// values after the marker; 4 = pseudo-random binary of `len` bytes after the marker.
    pub kind: u8,
    pub len: u32,
    /// number of attributes (keys/values derived from the marker; includes empty and
    /// non-ASCII keys/values when `odd` is set)
    pub attrs: u8,
    pub odd: bool,
}

impl Payload {
    pub fn plain() -> Self {
        Payload { kind: 0, len: 0, attrs: 0, odd: false }
    }
}

#[derive(Clone, Debug, Serialize, Deserialize, PartialEq)]
pub enum Op {
    CreateTopic { t: T, a: bool },
    DeleteTopic { t: T, a: bool },
    GetTopic { t: T, a: bool },
    CreateSub { s: S, t: T, dl: i32, push: u8, a: bool },
    DeleteSub { s: S, a: bool },
    GetSub { s: S, a: bool },
    ListTopics { p: u8, size: i32, a: bool },
    ListSubs { p: u8, size: i32, a: bool },
    ListTopicSubs { t: T, size: i32, a: bool },
    /// kind 0 = ListTopics(p), 1 = ListSubscriptions(p), 2 = ListTopicSubscriptions(t):
    /// follow next_page_token until it is empty (sequential).
    Walk { kind: u8, p: u8, t: T, size: i32 },
    Publish { t: T, n: u8, payload: Payload, a: bool },
    Pull { s: S, max: i32, ri: bool, a: bool },
    /// Repeat Pull(return_immediately, 1000) until an empty response (sequential).
    PullAll { s: S },
    Ack { s: S, refs: Vec<AckRef>, a: bool },
    Modify { s: S, refs: Vec<AckRef>, secs: i32, a: bool },
    StreamOpen { s: S, max_out: i32 },
    StreamSend { k: u8, acks: Vec<AckRef>, mods: Vec<(AckRef, i32)> },
    StreamCloseSend { k: u8 },
    StreamDrop { k: u8 },
    /// yield to the scheduler n times (no clock movement)
    Tick { n: u8 },
    /// wait until nothing is runnable (quiescent point), record stats
    Settle,
    /// let virtual time pass
    Advance { ms: u64 },
    /// Position the clock exactly `delta_us` relative to the nominal deadline of the
    /// d-th most recent delivery on s (only forward; no-op when that instant has passed).
    GoTo { s: S, d: u16, delta_us: i64 },
    /// Like `GoTo`, but relative to the deadline the server actually computed (the nominal one
    /// rounded forward to its 100 ms grid) of the `back`-th most recent delivery on s (0 = the
    /// most recent): lands the clock between two deadlines that are milliseconds apart.
    GoToActual { s: S, back: u8, delta_us: i64 },
    /// abort the c-th most recent still-pending call
    Abort { c: u8 },
    /// launch n calls of one kind in one tick: kind 0 Pull(blocking,max 1), 1 Pull(ri),
    /// 2 Ack(unknown), 3 GetSub, 4 Publish(1 msg), 5 ListTopicSubs, 6 Modify(unknown,10)
    Burst { kind: u8, s: S, t: T, n: u8 },
    /// C16: poll the inner call k times (ticks or a settle in between), then drop it.
    PollDrop { op: Box<Op>, k: u8, settle_between: bool },
    /// C11: list every pooled topic's subscriptions and get every pooled subscription
    CheckLists,
    /// one Publish request carrying `n` marker messages (large backlogs, long batches)
    PublishMany { t: T, n: u32, a: bool },
    /// C17: a request with arbitrary field values
    Raw { req: Req, a: bool },
    /// C17: Publish to an arbitrary topic string
    RawPublish { topic: String, n: u8, a: bool },
    /// C17: StreamingPull opened with arbitrary first-request fields
    StreamOpenRaw { sub: String, max_out: i64 },
    /// C17: a control message with arbitrary fields on the k-th open stream
    StreamRaw { k: u8, subscription: String, max_out: i64, max_bytes: i64, acks: Vec<String>, mod_ids: Vec<String>, mod_secs: Vec<i32> },
    /// C16/C17: record the complete observable state
    Snapshot,
    /// open the stall gate: every task held at a stall point continues
    ReleaseStalls,
    /// C13: one list call with a page token the server did not necessarily issue
    ListTok { kind: u8, p: u8, t: T, size: i32, tok: Tok },
}

#[derive(Clone, Debug, Serialize, Deserialize, PartialEq)]
pub enum Tok {
    /// standard base64 of the 8 little-endian bytes of the offset (the observed token format)
    Offset(u64),
    /// standard base64 of arbitrary bytes
    Bytes(Vec<u8>),
    Raw(String),
}

impl Tok {
    pub fn render(&self) -> String {
        use base64::Engine;
        match self {
            Tok::Offset(n) => base64::engine::general_purpose::STANDARD.encode(n.to_le_bytes()),
            Tok::Bytes(b) => base64::engine::general_purpose::STANDARD.encode(b),
            Tok::Raw(s) => s.clone(),
        }
    }
}

/// H2: at the `nth` hit of schedule point `point` yield `yields` times.
#[derive(Clone, Debug, Serialize, Deserialize, PartialEq)]
pub struct PointSpec {
    pub point: u8,
    pub nth: u8,
    pub yields: u8,
}

pub const POINT_NAMES: &[&str] = &[
    "create_sub.before_attach",
    "topic.send.publish",
    "topic.send.attach",
    "topic.send.remove",
    "topic.send.delete",
    "topic.send.list",
    "sub.send.pull",
    "sub.send.post",
    "sub.send.ack",
    "sub.send.modify",
    "sub.send.delete",
    "sub.send.info",
    "pull.after_signal",
    "pull.before_wait",
    "stream.after_signal",
    "stream.before_wait",
];

#[derive(Clone, Debug, Serialize, Deserialize, PartialEq)]
pub struct Case {
    pub sched_seed: u64,
    pub phase_us: u32,
    pub fanout_seed: u64,
    pub points: Vec<PointSpec>,
    pub ops: Vec<Op>,
}

/// Monotone index map (shrinks towards 0): i in 0..=65535 → 0..len
pub fn pick(i: u16, len: usize) -> usize {
    if len == 0 {
        0
    } else {
        ((i as usize) * len) >> 16
    }
}
