//! Per-property checks: generator profile, run configuration, non-triviality rule.
use crate::case::*;
use crate::gen::*;
use crate::model::{Report, Violation};
use crate::runner::*;
use crate::sim::RunCfg;
use proptest::collection::vec;
use proptest::prelude::*;

pub const ALL_PROPS: &[&str] = &[
    "C01", "C02", "C03", "C04", "C05", "C06", "C07", "C08", "C09", "C10", "C11", "C12", "C13", "C14", "C15", "C16", "C17", "C18", "C19",
];

pub struct PropInfo {
    pub level: &'static str,
    pub rule: &'static str,
    pub assumptions: &'static [&'static str],
}

pub const SIM_ASSUMPTIONS: &[&str] = &[
    "requests enter through the generated tonic clients on the in-process Routes service: full codec, routing, handlers and status mapping, no HTTP/2 framing",
    "single-threaded tokio runtime with paused clock: interleavings are explored at await granularity plus the cfg(deltio_verif) schedule points; preemptive multi-core interleavings inside synchronous sections are not explored",
    "tokio select! outcomes are sampled through the runtime RNG seed, not enumerated",
    "the model suspends a rule whenever the history leaves its premise undetermined (overlapping or abandoned calls, statuses the property does not pin down, instants inside the <=101 ms deadline slack)",
];

pub fn info(prop: &str) -> PropInfo {
    let (level, rule) = match prop {
        "C01" => ("exploration", "random concurrent histories (proptest) over 1-2 topics x 1-4 subscriptions; non-trivial = a publish returned while >=2 subscriptions were attached to its topic AND (a redelivery happened OR two publishes overlapped OR a create/delete overlapped a publish); distinct by hash of the operation list"),
        "C02" => ("exploration", "exhaustive enumeration of all sequences up to a length bound over three alphabets (12 unary symbols; 8 StreamingPull control-message symbols; 6 symbols of control messages that acknowledge and modify at once) on 1 topic with 2 subscriptions, stats compared with the model after every step, plus random concurrent histories; non-trivial = an acknowledgement took effect while another delivery was outstanding, or a stale/unknown ack id was sent while a delivery was outstanding; distinct by hash of the operation list"),
        "C03" => ("exploration", "random histories with 2-6 concurrent consumers (unary pulls, streams, bursts) per subscription, plus one batch of push subscriptions against a scripted HTTP endpoint (slow and silent answers, rounds of 60 messages); non-trivial = >=2 consumer calls in flight at once on a subscription holding >=2 messages and >=1 redelivery; distinct by hash of the operation list"),
        "C04" => ("exploration", "structured histories: ack_deadline_seconds from a boundary set, generated rounding phase, 1-6 messages handed out at 1-3 instants, probes positioned exactly around each deadline (GoTo -2ms..-1us and +101..200ms) plus blocked consumers; exhaustive sweep of AckDeadline::new over all 100000 microsecond phases; non-trivial = >=1 probe inside the last 2 ms before a deadline and >=1 redelivery after expiry; distinct by (phase, operation list)"),
        "C05" => ("exploration", "structured histories mixing ModifyAckDeadline (unary and streaming, boundary N values, mixed id classes) with exact probes around the old and new deadline; non-trivial = a request mixing >=2 ack-id classes, or a shortening / repeated modification of one delivery; distinct by hash of the operation list"),
        "C06" => ("exploration", "directed-random schedules: 1-5 waiting consumers, availability event at 0-6 ticks, bursts that fill the mailbox, aborts of woken consumers, cfg(deltio_verif) yield points; non-trivial = the availability event happened while >=1 consumer call was waiting, with >=2 consumers or an abort; distinct by hash of the operation list and yield points"),
        "C07" => ("exploration", "request storms: 17-60 concurrent requests on one subscription/topic mixed with publish, delete, create, list and stream control messages; non-trivial = more than 16 calls in flight at once while a publish or delete was in flight; distinct by hash of the operation list"),
        "C08" => ("exploration", "1-4 concurrent publishers of batches to one topic, 1-3 subscriptions each read by 1-3 consumers, nacks/expiries, no aborts; non-trivial = two publishes overlapped and >=2 subscriptions had >=2 first deliveries; distinct by hash of the operation list"),
        "C09" => ("exploration", "payloads: empty, 1 byte, all byte values, random binary up to 70000 bytes, 0-24 attributes incl. empty and non-ASCII keys/values; read back by Pull and StreamingPull, first delivery and after nack/expiry; topic delete/re-create; non-trivial = a redelivered message with attributes or binary data, or >=2 topic instances under one name; distinct by hash of the operation list"),
        "C10" => ("exploration", "concurrent control-plane histories over small name pools (racing creates, create vs delete, use after delete, cross-project, all deadline/push shapes), decided by a per-name linearizability search; non-trivial = >=2 overlapping create/delete calls on one name; distinct by hash of the operation list"),
        "C11" => ("exploration", "create/delete histories of topics and subscriptions with re-creation under the same names, publishes and pulls, listing checks at quiescent points, yield point between manager insert and attach; non-trivial = a topic name re-created while a subscription of its earlier instance survives; distinct by hash of the operation list"),
        "C12" => ("exploration", "0-3 open streams (request side open or closed), 0-3 blocked pulls, in-flight ack/modify/pull, DeleteSubscription at 0-6 ticks, many scheduler seeds; non-trivial = DeleteSubscription invoked while >=1 stream or blocked pull was waiting on it; distinct by (scheduler seed, operation list)"),
        "C13" => ("exploration", "N in {0,1,2,19,20,21,40,...} resources over 2 projects built by create/delete histories; full walks of the three list RPCs with boundary page sizes; hostile page tokens; non-trivial = a walk of >=2 pages over a list that saw a deletion, or a hostile token; distinct by hash of the operation list"),
        "C15" => ("exploration", "max_messages / max_outstanding_messages from boundary sets around 1000 and 65535/65536, backlogs around those sizes, blocking and non-blocking pulls; non-trivial = backlog larger than the limit, a limit >=65535, or a blocking pull that had to wait; distinct by hash of the operation list"),
        "C14" => ("fault_enumeration", "one push subscription per case, each with its own URL path on a scripted loopback HTTP endpoint and its own per-attempt fault script over {200,201,202,204, 102-then-silence, 100-then-silence, 301, 400, 404, 429, 500, 503, reset, close-without-answer, stall, 200-after-300ms}: every single behaviour, failure-then-X pairs (all pairs across the thorough batches), random triples, 1-3 messages with varied payloads, pull-only control subscriptions and subscriptions deleted mid-way; oracle from the endpoint's own log; non-trivial = a script with a failure followed by an accepting answer, or a transport-level fault; distinct by hash of the case"),
        "C16" => ("fault_enumeration", "every request kind (13 unary RPCs, push-subscription create, stream open, stream control message) x drop after k = 0..12 polls of its future x {no, topic, subscription, both} mailboxes saturated by 17-40 state-neutral requests x {one scheduler tick, a full settle} between polls, plus proptest-generated prefixes; oracle = the observable state (all listings, resources, stats, push registry, an attach probe, and what is obtainable after the ack deadline) equals that of a reference run with the request completed or that of one with the request never sent; non-trivial = the drop happened after at least one poll, i.e. inside the handler; distinct by (kind, k, saturation, pacing)"),
        "C17" => ("exploration", "one to four requests per case against a prepared instance (2 topics, 3 subscriptions, outstanding deliveries, an open stream) with fields drawn from structured pools: near-miss / empty / huge / non-ASCII / slash-heavy names, malformed ack ids, boundary integers, page tokens, push endpoints, inconsistent StreamingPull control messages; the observable state is rendered before and after every request; non-trivial = a request that must be rejected although it also carries valid, effect-bearing elements; distinct by hash of the operation list"),
        "C18" => ("exploration", "exhaustive enumeration of projects/ + up to 5 (quick) / 7 (thorough) tokens from {a,b,/,e-acute,topics,subscriptions,projects,-,_deleted_topic_} and of all strings of up to 5 raw symbols, plus proptest pairs of grammar-valid names, near-miss mutations and arbitrary UTF-8; oracle = independent reference grammar, echo round trip, injectivity; non-trivial = string starts with projects/ and contains >=2 further slashes; distinct strings counted"),
        "C19" => ("exploration", "(a) deterministic explorer: every sequence of up to 6 (quick) / 8 (thorough) operations from {NewWaiter, Poll(0..2), Inc, Dec} for three limit pairs, plus proptest sequences of up to 24 operations with up to 6 waiters, polled by hand with flag wakers; (b) barrier-started real-thread rounds (1-3 waiters, a freeing dec after a generated spin of 0-400 iterations, optional noise thread); non-trivial = an inc/dec executed while >=2 waiters were parked (explorer) or a round with >=2 waiters or a noise thread (stress); distinct by hash of the case"),
        _ => ("exploration", ""),
    };
    let assumptions: &'static [&'static str] = match prop {
        "C18" => &["TopicName::try_parse / SubscriptionName::try_parse / Display are the parsers every RPC goes through (src/api/parser.rs)", "empty project or resource IDs are outside the grammar"],
        "C14" => &["real loopback TCP and real time: the inputs are a function of the seed, the timing is not", "push interval 20 ms, ack deadline 10 s, observation 19 s per batch; a failed push must be followed by another POST within 6 s (16 s when the endpoint never answered), an accepted one by none", "hyper treats every 1xx answer as interim: status 102 can never be seen as a final answer by the push loop (known finding)"],
        "C16" => &["in-process transport: dropping the client call future drops the handler at its current suspension point (over HTTP/2 the cancellation arrives a few scheduler turns later; not modelled)", "the reference runs are executions of the same implementation on the same seeds: the oracle is the metamorphic relation abandon(k) in {completed, never sent} plus the absolute attach probe", "saturation uses state-neutral requests only (GetSubscription, ListTopicSubscriptions)"],
        "C19" => &["explorer polls are atomic: interleavings inside one poll are only reached by the real-thread stress, which is not a pure function of the seed", "a waiter that has not resumed 20 s after capacity was freed on an otherwise idle process is taken as never resuming"],
        _ => SIM_ASSUMPTIONS,
    };
    PropInfo { level, rule, assumptions }
}

fn scale(tier: Tier, quick: u64, thorough: u64) -> u64 {
    let base = match tier {
        Tier::Quick => quick,
        Tier::Thorough => thorough,
    };
    match std::env::var("VERIF_SCALE").ok().and_then(|s| s.parse::<f64>().ok()) {
        Some(f) => ((base as f64) * f).max(1.0) as u64,
        None => base,
    }
}

fn no_classes(_: &Case, _: &Report) -> Vec<&'static str> {
    vec![]
}

fn std_classes(c: &Case, r: &Report) -> Vec<&'static str> {
    let mut v = Vec::new();
    let f = &r.feat;
    if f.redeliveries > 0 {
        v.push("redelivery");
    }
    if f.expiry_redeliveries > 0 {
        v.push("expiry_redelivery");
    }
    if f.overlapping_publishes {
        v.push("overlapping_publishes");
    }
    if f.create_delete_overlapping_publish {
        v.push("create_or_delete_overlapping_publish");
    }
    if f.max_in_flight > 16 {
        v.push("more_than_16_calls_in_flight");
    }
    if f.abort_of_consumer {
        v.push("consumer_aborted");
    }
    if f.stats_compared > 0 {
        v.push("stats_compared_with_model");
    }
    if f.topic_instances_same_name >= 2 {
        v.push("topic_name_recreated");
    }
    if f.stream_ctrl_msgs > 0 {
        v.push("stream_control_message");
    }
    if !c.points.is_empty() {
        v.push("yield_points");
    }
    if f.max_concurrent_consumers >= 2 {
        v.push("two_or_more_consumers_at_once");
    }
    v
}

// ------------------------------------------------------------------------------------
// profiles

pub fn c01_strategy() -> BoxedStrategy<Case> {
    let w = W {
        nt: 2,
        ns: 4,
        p_async: 0.4,
        publish: 12,
        create_sub: 2,
        delete_sub: 1,
        create_topic: 1,
        delete_topic: 1,
        burst: 1,
        burst_kinds: vec![0, 1, 4],
        burst_n: (3, 20),
        abort: 1,
        abandon_pull: 1,
        goto: 2,
        ..W::default()
    };
    // now and then a topic with many subscriptions (fan-out beyond a handful)
    let many = W { nt: 1, ns: 20, p_async: 0.3, publish: 14, publish_many: 1, create_sub: 1, delete_sub: 1, create_topic: 0, delete_topic: 0, pull_ri: 8, pull_all: 4, stream_open: 1, ..W::default() };
    prop_oneof![
        12 => arb_case(w, 1..=2, 0..=4, 6..40, 2),
        1 => arb_case(many, 1..=1, 9..=20, 5..20, 1),
    ]
    .boxed()
}

pub fn c02_strategy() -> BoxedStrategy<Case> {
    let w = W { nt: 1, ns: 2, p_async: 0.15, long_ack: 1, malformed_refs: 3, ack: 12, nack: 3, modify: 2, advance: 8, create_sub: 0, delete_sub: 0, create_topic: 0, delete_topic: 0, bad_refs: 3, stream_send: 4, ..W::default() };
    arb_case(w, 1..=1, 2..=2, 6..36, 0)
}

pub fn c03_strategy() -> BoxedStrategy<Case> {
    let w = W {
        nt: 1,
        ns: 2,
        p_async: 0.6,
        pull_ri: 8,
        pull_block: 8,
        stream_open: 4,
        publish: 10,
        nack: 5,
        modify: 3,
        ack: 3,
        advance: 6,
        burst: 2,
        burst_kinds: vec![0, 1],
        burst_n: (2, 8),
        abort: 3,
        abandon_pull: 3,
        stream_drop: 1,
        create_sub: 0,
        delete_sub: 0,
        create_topic: 0,
        delete_topic: 0,
        big_payload: 3,
        uptime_jump: 10,
        max_msgs: vec![1, 2, 3],
        ..W::default()
    };
    arb_case(w, 1..=1, 1..=2, 8..40, 2)
}

/// C04/C05: structured deadline histories.
pub fn deadline_strategy(with_modify: bool) -> BoxedStrategy<Case> {
    let dls: Vec<i32> = vec![-5, 0, 1, 9, 10, 11, 17, 60, 600, 100_000, i32::MAX];
    let dl = (0..dls.len()).prop_map(move |i| dls[i]);
    let s0 = S { p: 0, i: 0 };
    let t0 = T { p: 0, i: 0 };
    // step alphabet
    let probe = prop_oneof![
        3 => Just(-2_000i64),
        3 => Just(-1i64),
        2 => Just(-1_000i64),
        1 => -3_000i64..0,
        3 => Just(101_500i64),
        2 => Just(102_000i64),
        2 => 101_001i64..250_000,
    ];
    let mod_vals: Vec<i32> = vec![0, 0, 1, 5, 9, 10, 11, 599, 600, 601, 65_535, 65_536, 65_537, 65_536 + 599, 131_072 + 3, 1_000_000, i32::MAX, -1, i32::MIN];
    let mod_secs = prop_oneof![
        3 => (0..mod_vals.len()).prop_map(move |i| mod_vals[i]),
        1 => 1i32..700,
    ];
    let refs = vec(if with_modify { arb_ref_with_malformed() } else { arb_ref(1) }, 1..5);
    let wm = if with_modify { 8 } else { 1 };
    let step = prop_oneof![
        4 => (1u8..4).prop_map(move |n| Op::Publish { t: t0, n, payload: Payload::plain(), a: false }),
        5 => prop_oneof![Just(1i32), Just(2), Just(10)].prop_map(move |max| Op::Pull { s: s0, max, ri: true, a: false }),
        2 => Just(Op::Pull { s: s0, max: 10, ri: false, a: true }),
        1 => Just(Op::StreamOpen { s: s0, max_out: 10 }),
        1 => Just(Op::StreamDrop { k: 0 }),
        1 => (1u8..4, any::<bool>()).prop_map(move |(k, sb)| Op::PollDrop { op: Box::new(Op::Pull { s: s0, max: 2, ri: true, a: false }), k, settle_between: sb }),
        3 => (0u16..=65535, probe.clone()).prop_map(move |(d, delta_us)| Op::GoTo { s: s0, d, delta_us }),
        3 => prop_oneof![Just(1u64), Just(50), Just(100), Just(1_000), Just(4_000), Just(9_990), Just(10_101)].prop_map(|ms| Op::Advance { ms }),
        2 => refs.clone().prop_map(move |refs| Op::Ack { s: s0, refs, a: false }),
        wm => (refs.clone(), mod_secs.clone()).prop_map(move |(refs, secs)| Op::Modify { s: s0, refs, secs, a: false }),
        (wm + 1) / 2 => (vec(arb_ref(1), 0..2), vec((arb_ref_with_malformed(), mod_secs.clone()), 1..4)).prop_map(|(acks, mods)| Op::StreamSend { k: 0, acks, mods }),
        2 => Just(Op::PullAll { s: s0 }),
        (wm / 4).max(1) => (arb_long_refs(true), mod_secs.clone()).prop_map(move |(refs, secs)| Op::Modify { s: s0, refs, secs, a: false }),
        1 => arb_long_refs(false).prop_map(move |refs| Op::Ack { s: s0, refs, a: false }),
    ];
    // a probe: position the clock relative to a delivery's deadline, then look at once
    let probe_pair = (0u16..=65535, probe, prop_oneof![Just(1i32), Just(10)]).prop_map(move |(d, delta_us, max)| vec![Op::GoTo { s: s0, d, delta_us }, Op::Pull { s: s0, max, ri: true, a: false }]);
    // two hand-outs 1-4 ms apart (their deadlines are 2-8 ms apart), the clock put between the
    // two deadlines, and a request in that gap
    let close_pair = (1u64..5, prop_oneof![Just(500i64), Just(1_000), Just(1_500)], any::<bool>()).prop_map(move |(gap, delta_us, with_pub)| {
        let mut v = vec![
            Op::Publish { t: t0, n: 2, payload: Payload::plain(), a: false },
            Op::Pull { s: s0, max: 1, ri: true, a: false },
            Op::Advance { ms: gap },
            Op::Pull { s: s0, max: 1, ri: true, a: false },
            Op::GoToActual { s: s0, back: 1, delta_us },
        ];
        v.push(if with_pub { Op::Publish { t: t0, n: 1, payload: Payload::plain(), a: false } } else { Op::Pull { s: s0, max: 10, ri: true, a: false } });
        v.push(Op::Advance { ms: 120 });
        v.push(Op::Pull { s: s0, max: 10, ri: true, a: false });
        v
    });
    // a modification handed over while more than a mailbox of requests is in flight, followed
    // at once by a look at its effect
    let busy_modify = (prop_oneof![Just(0i32), Just(0), Just(30)], 17u8..60).prop_map(move |(secs, n)| {
        vec![
            Op::Burst { kind: 3, s: s0, t: t0, n },
            Op::Tick { n: 1 },
            Op::Modify { s: s0, refs: vec![AckRef::Recent(0)], secs, a: false },
            Op::Pull { s: s0, max: 10, ri: true, a: false },
            Op::Settle,
        ]
    });
    let steps = prop_oneof![
        30 => step.prop_map(|o| vec![o]),
        8 => probe_pair,
        2 => close_pair,
        if with_modify { 2 } else { 0 } => busy_modify,
    ];
    (any::<u64>(), arb_phase(), dl, vec(steps, 4..26), 0u8..12)
        .prop_map(move |(sched_seed, phase_us, dl, body, jump)| {
            let body: Vec<Op> = body.into_iter().flatten().collect();
            let mut ops = vec![
                Op::CreateTopic { t: t0, a: false },
                Op::CreateSub { s: s0, t: t0, dl, push: 0, a: false },
                Op::CreateSub { s: S { p: 0, i: 1 }, t: t0, dl: 10, push: 0, a: false },
            ];
            if jump == 0 {
                // a server that has been up for 50 days (millisecond counters beyond 32 bits)
                ops.push(Op::Advance { ms: 4_300_000_123 });
            }
            ops.extend([
                Op::Publish { t: t0, n: 2, payload: Payload::plain(), a: false },
                Op::Pull { s: s0, max: 1, ri: true, a: false },
            ]);
            ops.extend(body);
            Case { sched_seed, phase_us, fanout_seed: 0, points: vec![], ops }
        })
        .boxed()
}

/// C16, second stage: consumers that receive and go away.
pub fn c16_abandon_strategy() -> BoxedStrategy<Case> {
    let s0 = S { p: 0, i: 0 };
    let t0 = T { p: 0, i: 0 };
    let pull = move |max: i32| Op::Pull { s: s0, max, ri: true, a: false };
    let step = prop_oneof![
        4 => (1u8..4).prop_map(move |n| vec![Op::Publish { t: t0, n, payload: Payload::plain(), a: false }]),
        4 => prop_oneof![Just(1i32), Just(2), Just(10)].prop_map(move |m| vec![pull(m)]),
        // a consumer whose call is dropped after k polls, or cancelled while it waits
        3 => (0u8..5, any::<bool>(), prop_oneof![Just(1i32), Just(3)], any::<bool>()).prop_map(move |(k, sb, max, ri)| vec![Op::PollDrop { op: Box::new(Op::Pull { s: s0, max, ri, a: false }), k, settle_between: sb }]),
        2 => (0u8..3).prop_map(move |c| vec![Op::Pull { s: s0, max: 2, ri: false, a: true }, Op::Tick { n: 2 }, Op::Abort { c }]),
        1 => Just(vec![Op::StreamOpen { s: s0, max_out: 10 }, Op::Settle, Op::StreamDrop { k: 0 }]),
        // hand-outs in quick succession, then the clock between their deadlines and a request there
        3 => (1u64..5, prop_oneof![Just(500i64), Just(1_000), Just(1_500)], 0u8..3).prop_map(move |(gap, delta_us, what)| {
            let mut v = vec![pull(1), Op::Advance { ms: gap }, pull(1), Op::GoToActual { s: s0, back: 1, delta_us }];
            v.push(match what {
                0 => Op::Publish { t: t0, n: 1, payload: Payload::plain(), a: false },
                1 => Op::GetSub { s: s0, a: false },
                _ => pull(10),
            });
            v.push(Op::Advance { ms: 150 });
            v.push(pull(10));
            v
        }),
        3 => prop_oneof![Just(1u64), Just(3), Just(100), Just(5_000), Just(10_200), Just(12_000)].prop_map(|ms| vec![Op::Advance { ms }]),
        2 => (0u16..=65535, prop_oneof![Just(-1_000i64), Just(101_500), Just(150_000)]).prop_map(move |(d, delta_us)| vec![Op::GoTo { s: s0, d, delta_us }, pull(10)]),
        2 => Just(vec![Op::PullAll { s: s0 }]),
        1 => Just(vec![Op::Settle]),
    ];
    (any::<u64>(), arb_phase(), vec(step, 3..14))
        .prop_map(move |(sched_seed, phase_us, body)| {
            let mut ops = vec![
                Op::CreateTopic { t: t0, a: false },
                Op::CreateSub { s: s0, t: t0, dl: 10, push: 0, a: false },
                Op::Publish { t: t0, n: 3, payload: Payload::plain(), a: false },
            ];
            ops.extend(body.into_iter().flatten());
            Case { sched_seed, phase_us, fanout_seed: 0, points: vec![], ops }
        })
        .boxed()
}

pub fn c06_strategy() -> BoxedStrategy<Case> {
    // the directed shape: waiting consumers, an availability event, a burst on the same
    // subscription, an abort of a (possibly woken) consumer; all offsets generated
    let s0 = S { p: 0, i: 0 };
    let t0 = T { p: 0, i: 0 };
    let consumer = prop_oneof![
        5 => prop_oneof![Just(1i32), Just(2), Just(3)].prop_map(move |max| Op::Pull { s: s0, max, ri: false, a: true }),
        2 => prop_oneof![Just(0i32), Just(1), Just(10)].prop_map(move |max_out| Op::StreamOpen { s: s0, max_out }),
    ];
    let event = prop_oneof![
        6 => (1u8..5, any::<bool>()).prop_map(move |(n, a)| Op::Publish { t: t0, n, payload: Payload::plain(), a }),
        2 => vec(arb_ref(0), 1..3).prop_map(move |refs| Op::Modify { s: s0, refs, secs: 0, a: true }),
        2 => prop_oneof![Just(10_101u64), Just(10_200), Just(9_999)].prop_map(|ms| Op::Advance { ms }),
    ];
    let noise = prop_oneof![
        3 => (0u8..7).prop_map(|n| Op::Tick { n }),
        3 => (prop_oneof![Just(1u8), Just(2), Just(3), Just(6)], 17u8..48).prop_map(move |(kind, n)| Op::Burst { kind, s: s0, t: t0, n }),
        3 => (0u8..6).prop_map(|c| Op::Abort { c }),
        1 => Just(Op::Settle),
        1 => Just(Op::StreamDrop { k: 0 }),
        1 => Just(Op::Pull { s: s0, max: 1, ri: true, a: true }),
        1 => Just(Op::ReleaseStalls),
    ];
    // a consumer that has pulled and is held before it starts waiting (a response stream
    // blocked by flow control, a slow task): points 13 pull.before_wait, 15 stream.before_wait
    let stalls = proptest::collection::vec((prop_oneof![Just(13u8), Just(15u8)], 0u8..4).prop_map(|(point, nth)| PointSpec { point, nth, yields: 255 }), 0..3);
    let round = (vec(consumer, 1..5), vec(noise.clone(), 0..2), event, vec(noise, 0..5)).prop_map(|(c, n0, e, n1)| {
        let mut v = c;
        v.extend(n0);
        v.push(e);
        v.extend(n1);
        v.push(Op::Settle);
        v
    });
    (any::<u64>(), arb_phase(), any::<u64>(), arb_points(4), stalls, vec(round, 1..4), any::<bool>())
        .prop_map(move |(sched_seed, phase_us, fanout_seed, mut points, stalls, rounds, prefill)| {
            points.extend(stalls);
            let mut ops = vec![Op::CreateTopic { t: t0, a: false }, Op::CreateSub { s: s0, t: t0, dl: 10, push: 0, a: false }];
            if prefill {
                ops.push(Op::Publish { t: t0, n: 2, payload: Payload::plain(), a: false });
                ops.push(Op::Pull { s: s0, max: 2, ri: true, a: false });
            }
            for r in rounds {
                ops.extend(r);
            }
            Case { sched_seed, phase_us, fanout_seed, points, ops }
        })
        .boxed()
}

pub fn c07_strategy() -> BoxedStrategy<Case> {
    let w = W {
        nt: 2,
        ns: 2,
        p_async: 0.85,
        burst: 14,
        burst_kinds: vec![0, 1, 2, 3, 4, 5, 6, 7, 8, 8],
        burst_n: (17, 60),
        publish: 8,
        delete_sub: 5,
        delete_topic: 2,
        create_sub: 4,
        create_topic: 2,
        list: 2,
        get_sub: 1,
        stream_open: 2,
        stream_send: 3,
        tick: 5,
        settle: 1,
        advance: 2,
        pull_all: 0,
        // wake-ups that leave a waiting Pull empty-handed, minutes into its wait
        empty_publish: 2,
        abandon_ctrl: 3,
        adv_ms: vec![1, 100, 5_000, 10_200, 30_000, 240_000, 240_000],
        ..W::default()
    };
    arb_case(w, 1..=2, 1..=2, 3..14, 3)
}

pub fn c08_strategy() -> BoxedStrategy<Case> {
    let w = W {
        nt: 1,
        ns: 3,
        p_async: 0.6,
        publish: 14,
        publish_many: 3,
        pull_ri: 8,
        pull_block: 4,
        stream_open: 2,
        nack: 2,
        ack: 3,
        advance: 2,
        burst: 2,
        burst_kinds: vec![4, 1],
        burst_n: (2, 12),
        create_sub: 0,
        delete_sub: 0,
        create_topic: 0,
        delete_topic: 0,
        modify: 0,
        pull_all: 3,
        max_msgs: vec![1, 2, 3, 10],
        big_payload: 8,
        ..W::default()
    };
    arb_case(w, 1..=1, 1..=3, 8..40, 2)
}

pub fn c09_strategy() -> BoxedStrategy<Case> {
    let w = W {
        np: 2,
        nt: 2,
        ns: 3,
        p_async: 0.05,
        payload_rich: true,
        publish: 12,
        publish_many: 2,
        pull_ri: 8,
        pull_all: 4,
        nack: 5,
        ack: 3,
        advance: 4,
        stream_open: 2,
        stream_drop: 1,
        create_topic: 3,
        delete_topic: 3,
        create_sub: 3,
        delete_sub: 1,
        adv_ms: vec![10_200, 12_300, 100],
        ..W::default()
    };
    arb_case(w, 1..=2, 1..=3, 6..30, 0)
}

/// C09: publishes racing topic deletion / re-creation (stale handles), with yield points
pub fn c09_race_strategy() -> BoxedStrategy<Case> {
    let w = W {
        nt: 2,
        ns: 2,
        p_async: 0.6,
        payload_rich: false,
        publish: 14,
        pull_ri: 4,
        pull_all: 4,
        create_topic: 6,
        delete_topic: 6,
        create_sub: 3,
        delete_sub: 1,
        tick: 4,
        settle: 2,
        advance: 1,
        nack: 1,
        ack: 1,
        stream_open: 0,
        stream_send: 0,
        pull_block: 0,
        ..W::default()
    };
    (arb_case(w, 1..=2, 1..=2, 6..30, 0), vec((prop_oneof![Just(1u8), Just(4u8), Just(1u8)], 0u8..5, 1u8..6), 0..4))
        .prop_map(|(mut c, pts)| {
            c.points = pts.into_iter().map(|(point, nth, yields)| PointSpec { point, nth, yields }).collect();
            c
        })
        .boxed()
}

/// Adds up to two stalled schedule points (the task reaching the point is held until the
/// history says `ReleaseStalls`, or until the finale) to the cases of a strategy.
pub fn with_stalls(inner: BoxedStrategy<Case>, candidates: &'static [u8]) -> BoxedStrategy<Case> {
    (inner, vec((0..candidates.len(), 0u8..3), 0..=2), any::<u16>(), any::<u16>())
        .prop_map(move |(mut c, st, pos, pos2)| {
            if !st.is_empty() {
                for (i, nth) in &st {
                    c.points.insert(0, PointSpec { point: candidates[*i], nth: *nth, yields: 255 });
                }
                let at = crate::case::pick(pos, c.ops.len() + 1);
                c.ops.insert(at, Op::ReleaseStalls);
                if pos2 % 3 == 0 {
                    let at = crate::case::pick(pos2, c.ops.len() + 1);
                    c.ops.insert(at, Op::Settle);
                }
            }
            c
        })
        .boxed()
}

/// the cross-actor sends of create and delete
const CONTROL_POINTS: &[u8] = &[0, 2, 3, 4, 10, 4, 10, 1];

/// Races on one topic name and two subscription names: creates, deletes (several at once,
/// some held at the cross-actor send points), re-creation while a stale request is still
/// held, and reads afterwards. Shared by C10, C11 and C12.
pub fn control_race_strategy() -> BoxedStrategy<Case> {
    let t0 = T { p: 0, i: 0 };
    let sx = prop_oneof![Just(S { p: 0, i: 0 }), Just(S { p: 0, i: 1 })];
    let step = prop_oneof![
        3 => Just(Op::DeleteTopic { t: t0, a: true }),
        2 => Just(Op::DeleteTopic { t: t0, a: false }),
        3 => Just(Op::CreateTopic { t: t0, a: false }),
        1 => Just(Op::CreateTopic { t: t0, a: true }),
        3 => (sx.clone(), any::<bool>()).prop_map(move |(s, a)| Op::CreateSub { s, t: t0, dl: 10, push: 0, a }),
        2 => (sx.clone(), any::<bool>()).prop_map(|(s, a)| Op::DeleteSub { s, a }),
        2 => Just(Op::Publish { t: t0, n: 1, payload: Payload::plain(), a: false }),
        1 => Just(Op::Publish { t: t0, n: 1, payload: Payload::plain(), a: true }),
        2 => Just(Op::ReleaseStalls),
        2 => Just(Op::Settle),
        2 => Just(Op::CheckLists),
        1 => sx.clone().prop_map(|s| Op::GetSub { s, a: false }),
        1 => Just(Op::GetTopic { t: t0, a: false }),
        1 => sx.clone().prop_map(|s| Op::PullAll { s }),
        1 => sx.clone().prop_map(|s| Op::StreamOpen { s, max_out: 10 }),
        1 => sx.clone().prop_map(|s| Op::Pull { s, max: 5, ri: false, a: true }),
        1 => (1u8..5).prop_map(|n| Op::Tick { n }),
    ];
    let stall_points: &'static [u8] = &[4, 4, 10, 10, 3, 2, 0, 1];
    (any::<u64>(), any::<u64>(), vec(step, 4..14), vec((0..stall_points.len(), 0u8..3), 1..=2), arb_points(2))
        .prop_map(move |(sched_seed, fanout_seed, body, stalls, mut points)| {
            let mut ops = vec![Op::CreateTopic { t: t0, a: false }, Op::CreateSub { s: S { p: 0, i: 0 }, t: t0, dl: 10, push: 0, a: false }];
            ops.extend(body);
            ops.extend([Op::ReleaseStalls, Op::Settle, Op::CheckLists]);
            for (i, nth) in stalls {
                points.insert(0, PointSpec { point: stall_points[i], nth, yields: 255 });
            }
            Case { sched_seed, phase_us: 0, fanout_seed, points, ops }
        })
        .boxed()
}

pub fn c10_strategy() -> BoxedStrategy<Case> {
    let w = W {
        np: 2,
        nt: 2,
        ns: 3,
        p_async: 0.6,
        create_topic: 8,
        delete_topic: 6,
        get_topic: 3,
        create_sub: 10,
        delete_sub: 7,
        get_sub: 4,
        list: 3,
        publish: 4,
        pull_ri: 3,
        pull_block: 0,
        pull_all: 0,
        ack: 2,
        nack: 1,
        modify: 1,
        stream_open: 1,
        stream_send: 0,
        tick: 4,
        settle: 3,
        advance: 1,
        dls: vec![-1, 0, 9, 10, 11, 60, 600, 100_000],
        push_variants: vec![0, 0, 0, 1, 2, 3, 4],
        ..W::default()
    };
    with_stalls(arb_case(w, 0..=2, 0..=2, 6..36, 3), CONTROL_POINTS)
}

pub fn c11_strategy() -> BoxedStrategy<Case> {
    let w = W {
        np: 1,
        nt: 2,
        ns: 3,
        p_async: 0.35,
        create_topic: 7,
        delete_topic: 6,
        create_sub: 9,
        delete_sub: 6,
        get_sub: 2,
        list: 2,
        publish: 8,
        pull_ri: 5,
        pull_block: 0,
        pull_all: 2,
        ack: 2,
        nack: 1,
        modify: 0,
        stream_open: 0,
        stream_send: 0,
        tick: 3,
        settle: 5,
        check_lists: 6,
        advance: 1,
        get_topic: 2,
        abandon_ctrl: 3,
        list_tok: 2,
        ..W::default()
    };
    // yield point between manager insert and attach is point index 0
    let inner = (arb_case(w, 1..=2, 0..=3, 6..36, 0), vec((0u8..4, 1u8..6), 0..3))
        .prop_map(|(mut c, pts)| {
            // yield points around the two cross-actor steps of create and delete:
            // 0 create_sub.before_attach, 2 topic.send.attach, 3 topic.send.remove, 4 topic.send.delete, 10 sub.send.delete
            let which = [0u8, 0, 3, 3, 2, 4, 10];
            c.points = pts.into_iter().enumerate().map(|(i, (nth, yields))| PointSpec { point: which[(i + nth as usize + yields as usize) % which.len()], nth, yields }).collect();
            c
        })
        .boxed();
    with_stalls(inner, CONTROL_POINTS)
}

pub fn c12_strategy() -> BoxedStrategy<Case> {
    let s0 = S { p: 0, i: 0 };
    let t0 = T { p: 0, i: 0 };
    let waiter = prop_oneof![
        4 => prop_oneof![Just(0i32), Just(10), Just(1), Just(2)].prop_map(move |max_out| Op::StreamOpen { s: s0, max_out }),
        3 => Just(Op::Pull { s: s0, max: 5, ri: false, a: true }),
        1 => Just(Op::StreamCloseSend { k: 0 }),
        1 => Just(Op::StreamCloseSend { k: 1 }),
    ];
    let racer = prop_oneof![
        2 => vec(arb_ref(1), 1..3).prop_map(move |refs| Op::Ack { s: s0, refs, a: true }),
        2 => vec(arb_ref(1), 1..3).prop_map(move |refs| Op::Modify { s: s0, refs, secs: 30, a: true }),
        2 => Just(Op::Pull { s: s0, max: 5, ri: true, a: true }),
        2 => (1u8..3).prop_map(move |n| Op::Publish { t: t0, n, payload: Payload::plain(), a: true }),
        1 => Just(Op::GetSub { s: s0, a: true }),
        1 => Just(Op::DeleteTopic { t: t0, a: true }),
        1 => (prop_oneof![Just(2u8), Just(6), Just(0), Just(3)], 17u8..40).prop_map(move |(kind, n)| Op::Burst { kind, s: s0, t: t0, n }),
        1 => Just(Op::DeleteSub { s: s0, a: true }),
        3 => (0u8..7).prop_map(|n| Op::Tick { n }),
        1 => (vec(arb_ref(1), 0..2), vec((arb_ref(1), Just(30i32)), 0..2)).prop_map(|(acks, mods)| Op::StreamSend { k: 0, acks, mods }),
    ];
    (any::<u64>(), any::<u64>(), arb_points(3), any::<bool>(), vec(waiter, 0..6), any::<bool>(), vec(racer.clone(), 0..4), any::<bool>(), vec(racer, 0..3), proptest::option::weighted(0.3, 0u8..6))
        .prop_map(move |(sched_seed, fanout_seed, points, prefill, waiters, settle_first, racers, async_del, after, abandon)| {
            let mut ops = vec![Op::CreateTopic { t: t0, a: false }, Op::CreateSub { s: s0, t: t0, dl: 10, push: 0, a: false }];
            if prefill {
                // enough backlog to bring a stream with a small limit up to it (and wake it again)
                ops.push(Op::Publish { t: t0, n: 2 + (sched_seed % 4) as u8, payload: Payload::plain(), a: false });
                ops.push(Op::Pull { s: s0, max: 1, ri: true, a: false });
            }
            ops.extend(waiters);
            if settle_first {
                ops.push(Op::Settle);
            }
            ops.extend(racers);
            match abandon {
                // the deleting client goes away after a few scheduler turns and (like any client
                // that did not get an answer) asks again
                Some(ticks) => {
                    ops.push(Op::DeleteSub { s: s0, a: true });
                    ops.push(Op::Tick { n: ticks });
                    ops.push(Op::Abort { c: 0 });
                    ops.push(Op::Settle);
                    ops.push(Op::DeleteSub { s: s0, a: false });
                }
                None => ops.push(Op::DeleteSub { s: s0, a: async_del }),
            }
            ops.extend(after);
            ops.push(Op::Settle);
            // a client that got no clean answer asks again
            ops.push(Op::DeleteSub { s: s0, a: false });
            ops.push(Op::Settle);
            Case { sched_seed, phase_us: 0, fanout_seed, points, ops }
        })
        .boxed()
}

pub fn c15_strategy(big: bool) -> BoxedStrategy<Case> {
    let s0 = S { p: 0, i: 0 };
    let t0 = T { p: 0, i: 0 };
    let maxes: Vec<i32> = vec![1, 2, 3, 999, 1000, 1001, 65_535, 65_536, 65_537, 131_072, i32::MAX];
    let outs: Vec<i32> = vec![0, 1, 2, 1000, 65_535, 65_536, -1];
    let backlog = if big {
        prop_oneof![Just(0u32), Just(1), Just(2), Just(999), Just(1000), Just(1001), Just(2500), Just(65_535), Just(65_536), Just(65_537), Just(66_000), Just(131_100)].boxed()
    } else {
        prop_oneof![Just(0u32), Just(1), Just(2), Just(3), Just(4), Just(999), Just(1000), Just(1001), Just(1500), Just(2100)].boxed()
    };
    let mx = (0..maxes.len()).prop_map(move |i| maxes[i]);
    let ox = (0..outs.len()).prop_map(move |i| outs[i]);
    let step = prop_oneof![
        6 => (mx.clone(), any::<bool>()).prop_map(move |(max, ri)| Op::Pull { s: s0, max, ri, a: !ri }),
        2 => ox.prop_map(move |max_out| Op::StreamOpen { s: s0, max_out }),
        1 => Just(Op::StreamDrop { k: 0 }),
        3 => (1u8..4).prop_map(move |n| Op::Publish { t: t0, n, payload: Payload::plain(), a: false }),
        2 => prop_oneof![Just(999u32), Just(1000), Just(1001), Just(2500)].prop_map(move |n| Op::PublishMany { t: t0, n, a: false }),
        2 => Just(Op::Settle),
        1 => prop_oneof![Just(10_200u64), Just(300_000), Just(299_000), Just(240_000)].prop_map(|ms| Op::Advance { ms }),
        1 => vec(arb_ref(0), 1..3).prop_map(move |refs| Op::Modify { s: s0, refs, secs: 0, a: false }),
        // a waiting Pull that is given up by its caller, and a wake-up that brings nothing
        1 => (0u8..3).prop_map(|c| Op::Abort { c }),
        1 => Just(Op::Publish { t: t0, n: 0, payload: Payload::plain(), a: false }),
    ];
    // a waiting Pull that its caller gives up, then another waiting Pull and a publish: the
    // second one must be served (nothing of the first may linger and take the message)
    let given_up = (mx.clone(), mx.clone(), any::<bool>(), any::<bool>(), 1u8..4).prop_map(move |(m1, m2, settle1, settle2, n)| {
        vec![
            Op::Pull { s: s0, max: m1, ri: false, a: true },
            if settle1 { Op::Settle } else { Op::Tick { n: 3 } },
            Op::Abort { c: 0 },
            Op::Settle,
            Op::Pull { s: s0, max: m2, ri: false, a: true },
            if settle2 { Op::Settle } else { Op::Tick { n: 2 } },
            Op::Publish { t: t0, n, payload: Payload::plain(), a: false },
            Op::Settle,
        ]
    });
    let backlog = prop_oneof![3 => backlog, 1 => Just(0u32)];
    let lead = prop_oneof![4 => Just(Vec::new()), 1 => given_up];
    (any::<u64>(), backlog, lead, vec(step, 2..10))
        .prop_map(move |(sched_seed, backlog, lead, body)| {
            let mut ops = vec![Op::CreateTopic { t: t0, a: false }, Op::CreateSub { s: s0, t: t0, dl: 10, push: 0, a: false }];
            let backlog = if lead.is_empty() { backlog } else { 0 };
            let body: Vec<Op> = lead.into_iter().chain(body).collect();
            let mut left = backlog;
            while left > 0 {
                let n = left.min(255);
                // one Publish request carries up to 255 messages in this language; large backlogs use several
                ops.push(Op::Publish { t: t0, n: n as u8, payload: Payload::plain(), a: false });
                left -= n;
            }
            ops.extend(body);
            Case { sched_seed, phase_us: 0, fanout_seed: 0, points: vec![], ops }
        })
        .boxed()
}

/// C06: consumers that wait, then one publish that makes the backlog length a multiple of 2^16
/// (or leaves it one off): the waiting consumers must be served.
pub fn c06_wrap_cases(tier: Tier) -> Vec<Case> {
    let s0 = S { p: 0, i: 0 };
    let s1 = S { p: 0, i: 1 };
    let t0 = T { p: 0, i: 0 };
    let sizes: &[u32] = match tier {
        Tier::Quick => &[65_536, 65_537],
        Tier::Thorough => &[65_535, 65_536, 65_537, 131_072],
    };
    sizes
        .iter()
        .map(|n| Case {
            sched_seed: *n as u64,
            phase_us: 0,
            fanout_seed: 0,
            points: vec![],
            ops: vec![
                Op::CreateTopic { t: t0, a: false },
                Op::CreateSub { s: s0, t: t0, dl: 10, push: 0, a: false },
                Op::CreateSub { s: s1, t: t0, dl: 10, push: 0, a: false },
                Op::Pull { s: s0, max: 10, ri: false, a: true },
                Op::StreamOpen { s: s1, max_out: 10 },
                Op::Settle,
                Op::PublishMany { t: t0, n: *n, a: false },
                Op::Settle,
                Op::StreamDrop { k: 0 },
            ],
        })
        .collect()
}

pub fn c15_wrap_cases(tier: Tier) -> Vec<Case> {
    let s0 = S { p: 0, i: 0 };
    let t0 = T { p: 0, i: 0 };
    let backlogs: &[u32] = match tier {
        Tier::Quick => &[65_536, 65_537, 65_541, 131_073],
        Tier::Thorough => &[65_535, 65_536, 65_537, 65_541, 66_000, 66_536, 131_072, 131_073, 131_100],
    };
    let maxes: &[i32] = match tier {
        Tier::Quick => &[10, 1000],
        Tier::Thorough => &[1, 10, 999, 1000, 1001, 65_535],
    };
    let mut v = Vec::new();
    for b in backlogs {
        for m in maxes {
            v.push(Case {
                sched_seed: *b as u64,
                phase_us: 0,
                fanout_seed: 0,
                points: vec![],
                ops: vec![
                    Op::CreateTopic { t: t0, a: false },
                    Op::CreateSub { s: s0, t: t0, dl: 10, push: 0, a: false },
                    Op::PublishMany { t: t0, n: *b, a: false },
                    Op::Pull { s: s0, max: *m, ri: true, a: false },
                    Op::Pull { s: s0, max: *m, ri: false, a: true },
                    Op::Settle,
                    Op::StreamOpen { s: s0, max_out: *m },
                    Op::Settle,
                    Op::StreamDrop { k: 0 },
                ],
            });
        }
    }
    v
}

// ------------------------------------------------------------------------------------
// C13: listing and pagination

pub fn c13_strategy(big: bool) -> BoxedStrategy<Case> {
    let counts: Vec<u8> = if big { vec![0, 1, 2, 19, 20, 21, 40, 41, 60] } else { vec![0, 1, 2, 3, 19, 20, 21, 40] };
    let cnt = (0..counts.len()).prop_map(move |i| counts[i]);
    let sizes = prop_oneof![
        Just(i32::MIN), Just(-1), Just(0), Just(1), Just(2), Just(3), Just(19), Just(20), Just(21), Just(39), Just(40), Just(41), Just(999), Just(1000), Just(1001), Just(i32::MAX),
    ];
    // after the initial population: mutations, walks and single list calls in any order, so that
    // a listing is also taken before *and* after a change of the same topic / project
    #[derive(Clone, Debug)]
    enum Step {
        Mutate(u8, u8),
        Walk(u8, u8, i32),
        Tok(u8, u8, i32, Tok),
    }
    let step = prop_oneof![
        5 => (0u8..6, 0u8..60).prop_map(|(k, j)| Step::Mutate(k, j)),
        5 => (0u8..3, 0u8..2, sizes.clone()).prop_map(|(k, p, s)| Step::Walk(k, p, s)),
        2 => (0u8..3, 0u8..2, sizes, arb_tok()).prop_map(|(k, p, s, t)| Step::Tok(k, p, s, t)),
    ];
    (any::<u64>(), cnt.clone(), cnt, vec(step, 2..16))
        .prop_map(|(sched_seed, ntop, nsub, steps)| {
            let mut ops = Vec::new();
            // topics spread over two projects; subscriptions over two topics of project 0 and one
            // of project 1, created in alternation (project mix in creation order)
            for i in 0..ntop {
                ops.push(Op::CreateTopic { t: T { p: i % 2, i: i / 2 }, a: false });
            }
            ops.push(Op::CreateTopic { t: T { p: 0, i: 200 }, a: false });
            ops.push(Op::CreateTopic { t: T { p: 0, i: 201 }, a: false });
            ops.push(Op::CreateTopic { t: T { p: 1, i: 200 }, a: false });
            let sub_topic = |p: u8, j: u8| if p == 1 { T { p: 1, i: 200 } } else { T { p: 0, i: 200 + (j % 3 == 2) as u8 } };
            for j in 0..nsub {
                let p = (j % 3 == 1) as u8;
                ops.push(Op::CreateSub { s: S { p, i: j }, t: sub_topic(p, j), dl: 10, push: 0, a: false });
            }
            for st in steps {
                match st {
                    Step::Mutate(k, j) => match k {
                        0 => ops.push(Op::DeleteTopic { t: T { p: j % 2, i: (j / 2) % (ntop / 2 + 1) }, a: false }),
                        1 | 2 => {
                            let i = j % (nsub + 1);
                            ops.push(Op::DeleteSub { s: S { p: (i % 3 == 1) as u8, i }, a: false })
                        }
                        3 => ops.push(Op::CreateTopic { t: T { p: j % 2, i: 100 + j }, a: false }),
                        _ => {
                            let p = j % 2;
                            ops.push(Op::CreateSub { s: S { p, i: 100 + j }, t: sub_topic(p, j), dl: 10, push: 0, a: false })
                        }
                    },
                    Step::Walk(kind, p, size) => ops.push(Op::Walk { kind, p, t: T { p, i: 200 }, size }),
                    Step::Tok(kind, p, size, tok) => ops.push(Op::ListTok { kind, p, t: T { p: 0, i: 200 }, size, tok }),
                }
            }
            Case { sched_seed, phase_us: 0, fanout_seed: 0, points: vec![], ops }
        })
        .boxed()
}

/// More than 1000 resources (the page-size cap) and more than 256 (token byte boundaries).
pub fn c13_big_cases(tier: Tier) -> Vec<Case> {
    let sizes: &[i32] = match tier {
        Tier::Quick => &[7, 251, 1000, 1001, i32::MAX],
        Tier::Thorough => &[0, 1, 2, 7, 50, 83, 125, 251, 999, 1000, 1001, 1002, 1003, 1004, 5000, i32::MAX],
    };
    let mut v = Vec::new();
    for kind in 0u8..3 {
        let mut ops = vec![Op::CreateTopic { t: T { p: 0, i: 200 }, a: false }];
        // 1003 topics in project 0 (ids 0..=249 x 4 pseudo "columns" via the project digit would
        // leave the project; use the i field range 0..=255 of four name prefixes instead)
        for j in 0..1003u32 {
            match kind {
                0 => ops.push(Op::Raw { req: crate::trace::Req::CreateTopic { name: format!("projects/p0/topics/big{}", j) }, a: false }),
                _ => ops.push(Op::Raw { req: crate::trace::Req::CreateSub { name: format!("projects/p0/subscriptions/big{}", j), topic: T { p: 0, i: 200 }.name(), dl: 10, push: None }, a: false }),
            }
        }
        for sz in sizes {
            ops.push(Op::Walk { kind, p: 0, t: T { p: 0, i: 200 }, size: *sz });
        }
        v.push(Case { sched_seed: kind as u64, phase_us: 0, fanout_seed: 0, points: vec![], ops });
    }
    v
}

pub fn arb_tok() -> BoxedStrategy<Tok> {
    prop_oneof![
        4 => prop_oneof![Just(0u64), Just(1), Just(2), Just(19), Just(20), Just(21), Just(40), Just(1000), Just(u32::MAX as u64), Just(u64::MAX), Just(u64::MAX - 1), Just(1u64 << 63)].prop_map(Tok::Offset),
        2 => (0u64..80).prop_map(Tok::Offset),
        2 => vec(any::<u8>(), 0..12).prop_map(Tok::Bytes),
        1 => vec(any::<u8>(), 8..9).prop_map(Tok::Bytes),
        2 => "[ -~]{0,16}".prop_map(Tok::Raw),
        1 => "[A-Za-z0-9+/]{11}=?".prop_map(Tok::Raw),
        1 => "[A-Za-z0-9+/=]{12}".prop_map(Tok::Raw),
        1 => Just(Tok::Raw("AAAAAAAAAAA".into())),
        1 => Just(Tok::Raw("FAAAAAAAAAA=\n".into())),
        1 => Just(Tok::Raw("é".into())),
    ]
    .boxed()
}

// ------------------------------------------------------------------------------------
// workers

fn sim_cfg(qp_each_op: bool) -> RunCfg {
    RunCfg { horizon: true, drain: true, qp_each_op }
}

/// Replay tier: every input saved under regressions/<property>/ (shrunk failures of defects
/// that were repaired, inputs that once raised a false alarm) is run again first. Spread over
/// the workers; inputs of the real-time engines only in the thorough tier.
fn replay_regressions(ctx: &WorkerCtx, out: &mut WorkerOut) {
    let dir = verif_root().join("regressions").join(&ctx.prop);
    let mut files: Vec<std::path::PathBuf> = match std::fs::read_dir(&dir) {
        Ok(rd) => rd.filter_map(|e| e.ok().map(|e| e.path())).filter(|p| p.extension().map(|x| x == "json").unwrap_or(false)).collect(),
        Err(_) => return,
    };
    files.sort();
    for (n, f) in files.iter().enumerate() {
        if n as u64 % ctx.nworkers != ctx.widx {
            continue;
        }
        let v: serde_json::Value = match std::fs::read(f).ok().and_then(|b| serde_json::from_slice(&b).ok()) {
            Some(v) => v,
            None => continue,
        };
        let input = v.get("input").cloned().unwrap_or(serde_json::Value::Null);
        let engine = input.get("engine").and_then(|e| e.as_str()).unwrap_or("sim").to_string();
        if ctx.tier == Tier::Quick && (engine == "push" || engine.starts_with("flow")) {
            continue;
        }
        let _ = std::fs::write(&ctx.inflight, serde_json::to_vec(&input).unwrap_or_default());
        out.evaluations += 1;
        out.class("regression_input_replayed");
        if let Ok(vs) = replay_input(&ctx.prop, &input) {
            for x in vs {
                if x.props.iter().any(|p| *p == ctx.prop) && match_finding(&ctx.findings, &ctx.prop, &x.rule, &x.detail).is_none() && out.failure.is_none() {
                    out.failure = Some(Failure { rule: x.rule.clone(), detail: format!("(saved input {}) {}", f.file_name().and_then(|n| n.to_str()).unwrap_or(""), x.detail), engine: engine.clone(), input: input.clone(), trace: serde_json::Value::Null });
                }
            }
        }
    }
}

pub fn run_worker(ctx: &WorkerCtx) -> WorkerOut {
    let mut out = WorkerOut::default();
    let t = ctx.tier;
    replay_regressions(ctx, &mut out);
    if out.failure.is_some() {
        return out;
    }
    match ctx.prop.as_str() {
        "C01" => {
            let nt = |_: &Case, r: &Report| {
                let f = &r.feat;
                f.max_subs_on_topic_at_publish >= 2 && (f.redeliveries > 0 || f.overlapping_publishes || f.create_delete_overlapping_publish)
            };
            run_sim_stage(ctx, SimStage { name: "random", strategy: c01_strategy(), cfg: sim_cfg(false), cases: ctx.share(scale(t, 24_000, 240_000)), nontrivial: &nt, classes: &std_classes, extra: None }, &mut out);
            // publishes racing the deletion and re-creation of their topic (handles that outlive a name)
            run_sim_stage(ctx, SimStage { name: "topic_reuse_races", strategy: c09_race_strategy(), cfg: sim_cfg(false), cases: ctx.share(scale(t, 8_000, 80_000)), nontrivial: &nt, classes: &std_classes, extra: None }, &mut out);
        }
        "C02" => {
            crate::enumerate::c02_enumeration(ctx, &mut out);
            let nt = |_: &Case, r: &Report| (r.feat.acks_effective > 0 && r.feat.ack_with_other_outstanding_then_deadline_passed) || r.feat.stale_or_unknown_ack_while_outstanding;
            run_sim_stage(ctx, SimStage { name: "random", strategy: c02_strategy(), cfg: sim_cfg(true), cases: ctx.share(scale(t, 4_000, 120_000)), nontrivial: &nt, classes: &std_classes, extra: None }, &mut out);
            // the same histories without a quiescent point after every operation: what a returned
            // Acknowledge has not applied yet meets the clock moving past the deadline
            run_sim_stage(ctx, SimStage { name: "random_unsettled", strategy: c02_strategy(), cfg: sim_cfg(false), cases: ctx.share(scale(t, 8_000, 120_000)), nontrivial: &nt, classes: &std_classes, extra: None }, &mut out);
        }
        "C03" => {
            let nt = |_: &Case, r: &Report| r.feat.concurrent_consumers_with_2_msgs && r.feat.redeliveries > 0;
            run_sim_stage(ctx, SimStage { name: "random", strategy: c03_strategy(), cfg: sim_cfg(false), cases: ctx.share(scale(t, 8_000, 240_000)), nontrivial: &nt, classes: &std_classes, extra: None }, &mut out);
            // push rounds as consumers (real HTTP endpoint): no second POST of a message while an
            // earlier one is unanswered within its ack deadline
            if out.failure.is_none() {
                crate::push::push_check(ctx, &mut out, 1);
            }
        }
        "C04" => {
            crate::pure::ackdeadline_sweep(ctx, &mut out);
            let nt = |_: &Case, r: &Report| r.feat.probes_before_deadline > 0 && r.feat.expiry_redeliveries > 0;
            run_sim_stage(ctx, SimStage { name: "deadline", strategy: deadline_strategy(false), cfg: sim_cfg(true), cases: ctx.share(scale(t, 18_000, 160_000)), nontrivial: &nt, classes: &c04_classes, extra: None }, &mut out);
        }
        "C05" => {
            let nt = |_: &Case, r: &Report| r.feat.modify_mixed_classes || r.feat.modify_shorten_or_repeat;
            run_sim_stage(ctx, SimStage { name: "modify", strategy: deadline_strategy(true), cfg: sim_cfg(true), cases: ctx.share(scale(t, 18_000, 160_000)), nontrivial: &nt, classes: &c04_classes, extra: None }, &mut out);
        }
        "C06" => {
            let nt = |_: &Case, r: &Report| r.feat.avail_event_with_waiter && (r.feat.waiters_max >= 2 || r.feat.abort_of_consumer);
            run_sim_stage(ctx, SimStage { name: "wakeups", strategy: c06_strategy(), cfg: sim_cfg(false), cases: ctx.share(scale(t, 36_000, 400_000)), nontrivial: &nt, classes: &std_classes, extra: None }, &mut out);
            run_case_list(ctx, "wrap_backlogs", c06_wrap_cases(t), &RunCfg { horizon: false, drain: false, qp_each_op: false }, &mut out);
        }
        "C07" => {
            let nt = |_: &Case, r: &Report| r.feat.max_in_flight > 16 && (r.feat.publishes_ok > 0 || r.feat.overlapping_control_on_name || r.feat.create_delete_overlapping_publish);
            run_sim_stage(ctx, SimStage { name: "storms", strategy: c07_strategy(), cfg: sim_cfg(false), cases: ctx.share(scale(t, 24_000, 200_000)), nontrivial: &nt, classes: &std_classes, extra: None }, &mut out);
            // requests in parallel on real threads (blocking locks, push loop ticking)
            if out.failure.is_none() {
                crate::push::mt_storm_check(ctx, &mut out, scale(t, 12, 200));
            }
        }
        "C08" => {
            let nt = |_: &Case, r: &Report| r.feat.overlapping_publishes && r.feat.subs_with_first_deliveries >= 2;
            run_sim_stage(ctx, SimStage { name: "order", strategy: c08_strategy(), cfg: sim_cfg(false), cases: ctx.share(scale(t, 8_000, 200_000)), nontrivial: &nt, classes: &std_classes, extra: None }, &mut out);
            // publishers in parallel on real threads: ids, id/payload pairing and delivery order
            if out.failure.is_none() {
                crate::push::mt_answer_check(ctx, &mut out, "publish", scale(t, 2, 40));
            }
        }
        "C09" => {
            let nt = |_: &Case, r: &Report| r.feat.redelivered_with_attrs_or_binary || r.feat.topic_instances_same_name >= 2;
            run_sim_stage(ctx, SimStage { name: "payloads", strategy: c09_strategy(), cfg: sim_cfg(false), cases: ctx.share(scale(t, 4_000, 80_000)), nontrivial: &nt, classes: &std_classes, extra: None }, &mut out);
            run_sim_stage(ctx, SimStage { name: "id_races", strategy: c09_race_strategy(), cfg: sim_cfg(false), cases: ctx.share(scale(t, 3_000, 60_000)), nontrivial: &nt, classes: &std_classes, extra: None }, &mut out);
            // push delivery path (real HTTP endpoint)
            if out.failure.is_none() {
                crate::push::push_check(ctx, &mut out, 1);
            }
            // publishers in parallel on real threads: id uniqueness and id/payload pairing
            if out.failure.is_none() {
                crate::push::mt_answer_check(ctx, &mut out, "publish", scale(t, 2, 40));
            }
        }
        "C10" => {
            let nt = |_: &Case, r: &Report| r.feat.overlapping_control_on_name;
            run_sim_stage(ctx, SimStage { name: "namespaces", strategy: c10_strategy(), cfg: sim_cfg(false), cases: ctx.share(scale(t, 24_000, 240_000)), nontrivial: &nt, classes: &std_classes, extra: None }, &mut out);
            run_sim_stage(ctx, SimStage { name: "name_races", strategy: control_race_strategy(), cfg: sim_cfg(false), cases: ctx.share(scale(t, 12_000, 120_000)), nontrivial: &nt, classes: &std_classes, extra: None }, &mut out);
            // "once a create has returned, every later request observes it" for more resources than
            // one page can hold (1003 topics / subscriptions, listed with sizes around the cap)
            run_case_list(ctx, "lists_1003", c13_big_cases(t), &RunCfg { horizon: false, drain: false, qp_each_op: false }, &mut out);
        }
        "C11" => {
            let nt = |_: &Case, r: &Report| r.feat.delete_then_recreate_with_survivor;
            run_sim_stage(ctx, SimStage { name: "deletion", strategy: c11_strategy(), cfg: sim_cfg(false), cases: ctx.share(scale(t, 24_000, 240_000)), nontrivial: &nt, classes: &std_classes, extra: None }, &mut out);
            run_sim_stage(ctx, SimStage { name: "name_races", strategy: control_race_strategy(), cfg: sim_cfg(false), cases: ctx.share(scale(t, 12_000, 120_000)), nontrivial: &nt, classes: &std_classes, extra: None }, &mut out);
        }
        "C12" => {
            let nt = |_: &Case, r: &Report| r.feat.delete_with_open_stream_or_blocked_pull;
            run_sim_stage(ctx, SimStage { name: "release", strategy: c12_strategy(), cfg: sim_cfg(false), cases: ctx.share(scale(t, 36_000, 400_000)), nontrivial: &nt, classes: &std_classes, extra: None }, &mut out);
            run_sim_stage(ctx, SimStage { name: "name_races", strategy: control_race_strategy(), cfg: sim_cfg(false), cases: ctx.share(scale(t, 12_000, 120_000)), nontrivial: &nt, classes: &std_classes, extra: None }, &mut out);
            // the same on real threads: idle streams and request loops on a subscription that is deleted
            if out.failure.is_none() {
                crate::push::mt_delete_check(ctx, &mut out, scale(t, 300, 6_000) as usize);
            }
        }
        "C13" => {
            crate::pure::paging_pure(ctx, &mut out);
            run_case_list(ctx, "walks_1003", c13_big_cases(t), &RunCfg { horizon: false, drain: false, qp_each_op: false }, &mut out);
            let nt = |_: &Case, r: &Report| r.feat.walks_multi_page_after_delete > 0 || r.feat.hostile_tokens > 0;
            run_sim_stage(ctx, SimStage { name: "walks", strategy: c13_strategy(t == Tier::Thorough), cfg: RunCfg { horizon: false, drain: false, qp_each_op: false }, cases: ctx.share(scale(t, 12_000, 80_000)), nontrivial: &nt, classes: &no_classes, extra: None }, &mut out);
            // listings racing creations and deletions on real threads, then a quiet walk
            if out.failure.is_none() {
                crate::push::mt_answer_check(ctx, &mut out, "list", scale(t, 2, 20));
            }
        }
        "C15" => {
            let nt = |_: &Case, r: &Report| r.feat.backlog_over_limit || r.feat.big_limit || r.feat.blocking_pull_waited;
            run_sim_stage(ctx, SimStage { name: "limits", strategy: c15_strategy(false), cfg: sim_cfg(false), cases: ctx.share(scale(t, 3_000, 40_000)), nontrivial: &nt, classes: &std_classes, extra: None }, &mut out);
            // through a real connection: long polls parked on it must not starve other requests
            if out.failure.is_none() {
                crate::push::wire_check(ctx, &mut out);
            }
            // the 16-bit wrap of the backlog length: a few very large backlogs, fixed cases
            run_case_list(ctx, "limits_wrap", c15_wrap_cases(t), &RunCfg { horizon: false, drain: false, qp_each_op: false }, &mut out);
            if t == Tier::Thorough {
                run_sim_stage(ctx, SimStage { name: "limits_big", strategy: c15_strategy(true), cfg: sim_cfg(false), cases: ctx.share(scale(t, 0, 400)), nontrivial: &nt, classes: &std_classes, extra: None }, &mut out);
            }
        }
        "C14" => crate::push::push_check(ctx, &mut out, if t == Tier::Thorough { 3 } else { 1 }),
        "C16" => {
            crate::c16::c16_check(ctx, &mut out);
            // "messages handed to an abandoned consumer are redelivered after their deadline":
            // histories in which every consumer goes away without acknowledging (its call is
            // dropped after k polls, aborted, or simply never followed by an ack), with hand-outs
            // in quick succession and probes between and after the deadlines; what the model's
            // delivery rules report on such a history is a C16 violation
            if out.failure.is_none() {
                let nt = |_: &Case, r: &Report| r.feat.expiry_redeliveries > 0 && r.feat.abort_of_consumer;
                let extra = |_: &Case, _: &crate::trace::Trace, r: &Report| -> Vec<Violation> {
                    const RULES: &[&str] = &["available_not_delivered", "available_not_obtainable", "never_delivered", "stats_mismatch", "delivered_while_leased", "ack_id_reused"];
                    r.violations.iter().filter(|v| RULES.contains(&v.rule.as_str()) && !v.props.iter().any(|p| p == "C16")).map(|v| Violation { rule: v.rule.clone(), props: vec!["C16".into()], at: v.at, detail: v.detail.clone() }).collect()
                };
                run_sim_stage(ctx, SimStage { name: "abandoned_consumers", strategy: c16_abandon_strategy(), cfg: sim_cfg(true), cases: ctx.share(scale(t, 6_000, 100_000)), nontrivial: &nt, classes: &c04_classes, extra: Some(&extra) }, &mut out);
            }
        }
        "C17" => {
            let nt = |c: &Case, _: &Report| crate::c17::has_mixed_rejection(c);
            run_sim_stage(ctx, SimStage { name: "malformed", strategy: crate::c17::c17_strategy(), cfg: sim_cfg(false), cases: ctx.share(scale(t, 24_000, 200_000)), nontrivial: &nt, classes: &crate::c17::c17_classes, extra: Some(&crate::c17::c17_extra) }, &mut out);
            // push endpoints that are almost URLs, with the real push loop running
            if out.failure.is_none() {
                crate::push::push_endpoint_check(ctx, &mut out);
            }
        }
        "C18" => {
            crate::pure::names_check(ctx, &mut out);
            // the same property at the RPC level: variants of existing names sent through gRPC
            let nt = |c: &Case, _: &Report| c.ops.iter().any(|o| matches!(o, Op::Raw { .. }));
            // in this stage a resource that disappears (or appears) under a name nobody deleted
            // (or created) means that two names denote one resource
            let extra = |_: &Case, _: &crate::trace::Trace, r: &Report| -> Vec<Violation> {
                r.violations.iter().filter(|v| v.rule == "not_linearizable" && !v.props.iter().any(|p| p == "C18")).map(|v| Violation { rule: v.rule.clone(), props: vec!["C18".into()], at: v.at, detail: v.detail.clone() }).collect()
            };
            run_sim_stage(ctx, SimStage { name: "rpc_names", strategy: crate::c17::c18_rpc_strategy(), cfg: RunCfg { horizon: false, drain: false, qp_each_op: false }, cases: ctx.share(scale(t, 3_000, 60_000)), nontrivial: &nt, classes: &no_classes, extra: Some(&extra) }, &mut out);
        }
        "C19" => crate::flow::flow_check(ctx, &mut out),
        other => {
            out.notes.push(format!("no worker for {}", other));
        }
    }
    out
}

fn c04_classes(c: &Case, r: &Report) -> Vec<&'static str> {
    let mut v = std_classes(c, r);
    if r.feat.probes_before_deadline > 0 {
        v.push("probe_within_2ms_before_a_deadline");
    }
    if r.feat.probes_after_deadline > 0 {
        v.push("probe_saw_available_message");
    }
    if r.feat.modify_rejected > 0 {
        v.push("modify_request_that_must_be_rejected");
    }
    if r.feat.modify_mixed_classes {
        v.push("modify_mixing_id_classes");
    }
    if r.feat.modify_shorten_or_repeat {
        v.push("modify_shortening_or_repeated");
    }
    match c.phase_us {
        0 | 1 | 49_999 | 50_000 | 99_999 => v.push("boundary_phase"),
        _ => {}
    }
    v
}

/// Replays one saved input and returns the violations the property's oracle reports.
pub fn replay_input(prop: &str, input: &serde_json::Value) -> Result<Vec<Violation>, String> {
    let engine = input.get("engine").and_then(|e| e.as_str()).unwrap_or("sim");
    match engine {
        "sim" => {
            let case: Case = serde_json::from_value(input.get("case").cloned().ok_or("no case")?).map_err(|e| e.to_string())?;
            let cfg = cfg_from_json(input.get("cfg").unwrap_or(&serde_json::Value::Null));
            let tr = crate::sim::run_case(&case, &cfg);
            let rep = crate::model::analyze(&tr);
            let mut vs = rep.violations;
            if prop == "C17" {
                vs.extend(crate::c17::c17_extra(&case, &tr, &crate::model::Report::default()));
            }
            if prop == "C18" && input.get("stage").and_then(|s| s.as_str()) == Some("rpc_names") {
                for v in vs.iter_mut() {
                    if v.rule == "not_linearizable" && !v.props.iter().any(|p| p == "C18") {
                        v.props.push("C18".into());
                    }
                }
            }
            if prop == "C16" && input.get("stage").and_then(|s| s.as_str()) == Some("abandoned_consumers") {
                // in that stage every consumer is an abandoned one: the delivery rules count for C16
                for v in vs.iter_mut() {
                    if !v.props.iter().any(|p| p == "C16") {
                        v.props.push("C16".into());
                    }
                }
            }
            Ok(vs)
        }
        "pure_names" => Ok(crate::pure::replay_names(input)),
        "c16" => crate::c16::replay_c16(input),
        "push" => crate::push::replay_push(input),
        "mt_storm" => crate::push::replay_mt_storm(input),
        "mt_delete_storm" => crate::push::replay_mt_delete(input),
        "mt_answer_storm" => crate::push::replay_mt_answer(input),
        "push_endpoint_probe" => crate::push::replay_push_endpoint(input),
        "wire_probe" => crate::push::replay_wire(input),
        "flow_explorer" | "flow_stress" => crate::flow::replay_flow(input),
        other => Err(format!("unknown engine {}", other)),
    }
}

/// Properties whose oracle is the simulation model over the general operation language: the
/// coverage-guided stage of the thorough tier applies to them.
pub const FUZZ_PROPS: &[&str] = &["C01", "C02", "C03", "C04", "C05", "C06", "C07", "C08", "C09", "C10", "C11", "C12", "C13", "C15"];

pub fn strategy_for(prop: &str) -> BoxedStrategy<Case> {
    match prop {
        "C01" => c01_strategy(),
        "C02" => c02_strategy(),
        "C03" => c03_strategy(),
        "C04" => deadline_strategy(false),
        "C05" => deadline_strategy(true),
        "C06" => c06_strategy(),
        "C07" => c07_strategy(),
        "C08" => c08_strategy(),
        "C09" => c09_strategy(),
        "C10" => c10_strategy(),
        "C11" => c11_strategy(),
        "C12" => c12_strategy(),
        "C13" => c13_strategy(false),
        "C15" => c15_strategy(false),
        "C17" => crate::c17::c17_strategy(),
        _ => c01_strategy(),
    }
}
