//! proptest strategies: one operation language, one weight profile per property.
use crate::case::*;
use proptest::collection::vec;
use proptest::prelude::*;

pub fn arb_t(np: u8, nt: u8) -> BoxedStrategy<T> {
    (0..np, 0..nt).prop_map(|(p, i)| T { p, i }).boxed()
}
pub fn arb_s(np: u8, ns: u8) -> BoxedStrategy<S> {
    (0..np, 0..ns).prop_map(|(p, i)| S { p, i }).boxed()
}

pub fn arb_ref(w_bad: u32) -> BoxedStrategy<AckRef> {
    arb_ref_m(w_bad, 0)
}

/// like `arb_ref`, with malformed ack-id strings at weight `w_mal` (of about 14 + 2·w_bad)
pub fn arb_ref_m(w_bad: u32, w_mal: u32) -> BoxedStrategy<AckRef> {
    if w_mal == 0 {
        return prop_oneof![
            10 => (0u16..=65535).prop_map(AckRef::Recent),
            4 => (0u16..=65535).prop_map(AckRef::Own),
            w_bad => (0u16..=65535).prop_map(AckRef::Foreign),
            w_bad => (0u32..50).prop_map(AckRef::Unknown),
        ]
        .boxed();
    }
    prop_oneof![
        10 => (0u16..=65535).prop_map(AckRef::Recent),
        4 => (0u16..=65535).prop_map(AckRef::Own),
        w_bad => (0u16..=65535).prop_map(AckRef::Foreign),
        w_bad => (0u32..50).prop_map(AckRef::Unknown),
        w_mal => (0u8..16).prop_map(AckRef::Malformed),
    ]
    .boxed()
}

pub fn arb_ref_with_malformed() -> BoxedStrategy<AckRef> {
    prop_oneof![
        8 => (0u16..=65535).prop_map(AckRef::Recent),
        3 => (0u16..=65535).prop_map(AckRef::Own),
        2 => (0u16..=65535).prop_map(AckRef::Foreign),
        2 => (0u32..50).prop_map(AckRef::Unknown),
        3 => (0u8..12).prop_map(AckRef::Malformed),
    ]
    .boxed()
}

/// A long ack-id list around a batching boundary: `lead` real references first (or last),
/// padding with never-issued ids, optionally one malformed id at the start, middle or end.
pub fn arb_long_refs(malformed: bool) -> BoxedStrategy<Vec<AckRef>> {
    let lens = prop_oneof![Just(15usize), Just(16), Just(17), Just(32), Just(33), Just(64), Just(65), Just(127), Just(128), Just(129), Just(255), Just(256), Just(257), Just(300), Just(511), Just(512), Just(513), Just(999), Just(1000), Just(1001), Just(1024), Just(1025)];
    (lens, 0u8..3, 0u8..3, any::<bool>(), 0u8..12)
        .prop_map(move |(len, lead_pos, bad_pos, with_bad, bad_kind)| {
            let mut v: Vec<AckRef> = (0..len as u32).map(|i| AckRef::Unknown(1000 + i)).collect();
            let place = |pos: u8, len: usize| match pos {
                0 => 0,
                1 => len / 2,
                _ => len - 1,
            };
            v[place(lead_pos, len)] = AckRef::Recent(0);
            if malformed && with_bad {
                let mut p = place(bad_pos, len);
                if p == place(lead_pos, len) {
                    p = (p + 1) % len;
                }
                v[p] = AckRef::Malformed(bad_kind);
            }
            v
        })
        .boxed()
}

pub fn arb_points(max: usize) -> BoxedStrategy<Vec<PointSpec>> {
    vec(
        (0u8..POINT_NAMES.len() as u8, 0u8..6, 1u8..5).prop_map(|(point, nth, yields)| PointSpec { point, nth, yields }),
        0..=max,
    )
    .boxed()
}

pub fn arb_phase() -> BoxedStrategy<u32> {
    prop_oneof![
        2 => Just(0u32),
        1 => Just(1u32),
        1 => Just(49_999u32),
        1 => Just(50_000u32),
        1 => Just(99_999u32),
        6 => 0u32..100_000,
    ]
    .boxed()
}

#[derive(Clone, Debug)]
pub struct W {
    pub np: u8,
    pub nt: u8,
    pub ns: u8,
    pub p_async: f64,
    pub create_topic: u32,
    pub delete_topic: u32,
    pub get_topic: u32,
    pub create_sub: u32,
    pub delete_sub: u32,
    pub get_sub: u32,
    pub list: u32,
    pub publish: u32,
    pub publish_many: u32,
    pub pull_ri: u32,
    pub pull_block: u32,
    pub pull_all: u32,
    pub ack: u32,
    pub long_ack: u32,
    pub nack: u32,
    pub modify: u32,
    pub stream_open: u32,
    pub stream_send: u32,
    pub stream_close: u32,
    pub stream_drop: u32,
    pub tick: u32,
    pub settle: u32,
    pub advance: u32,
    pub goto: u32,
    pub abort: u32,
    /// a Pull whose future is polled k times and then dropped (abandoned consumer)
    pub abandon_pull: u32,
    /// abandoned (polled k times, dropped) create / delete requests
    pub abandon_ctrl: u32,
    /// single list calls with a page token for an offset the server may not have issued
    pub list_tok: u32,
    pub burst: u32,
    pub check_lists: u32,
    pub bad_refs: u32,
    pub dls: Vec<i32>,
    pub max_msgs: Vec<i32>,
    pub burst_kinds: Vec<u8>,
    pub burst_n: (u8, u8),
    pub adv_ms: Vec<u64>,
    /// weight of malformed ack-id strings among the ids of unary Acknowledge / ModifyAckDeadline
    pub malformed_refs: u32,
    /// weight (of about 20) of an empty ack-id list
    pub empty_refs: u32,
    /// weight of a Publish request that carries no message
    pub empty_publish: u32,
    /// one case in `uptime_jump` starts after 200 days of uptime (0 = never)
    pub uptime_jump: u32,
    pub payload_rich: bool,
    /// weight of multi-megabyte payloads among the plain ones (of about 46)
    pub big_payload: u32,
    pub push_variants: Vec<u8>,
    pub mod_secs: Vec<i32>,
}

impl Default for W {
    fn default() -> Self {
        W {
            np: 1,
            nt: 2,
            ns: 3,
            p_async: 0.3,
            create_topic: 1,
            delete_topic: 1,
            get_topic: 0,
            create_sub: 2,
            delete_sub: 1,
            get_sub: 0,
            list: 0,
            publish: 10,
            publish_many: 0,
            pull_ri: 6,
            pull_block: 3,
            pull_all: 2,
            ack: 5,
            long_ack: 0,
            nack: 3,
            modify: 2,
            stream_open: 2,
            stream_send: 2,
            stream_close: 0,
            stream_drop: 0,
            tick: 3,
            settle: 4,
            advance: 4,
            goto: 0,
            abort: 0,
            abandon_pull: 0,
            abandon_ctrl: 0,
            list_tok: 0,
            burst: 0,
            check_lists: 0,
            bad_refs: 1,
            dls: vec![0, 10, 12],
            max_msgs: vec![1, 2, 3, 10, 1000],
            burst_kinds: vec![0, 1, 2, 3, 4],
            burst_n: (17, 40),
            adv_ms: vec![1, 37, 64, 100, 5_000, 9_950, 10_200, 12_300, 30_000],
            malformed_refs: 0,
            empty_refs: 1,
            empty_publish: 0,
            uptime_jump: 0,
            payload_rich: false,
            big_payload: 1,
            push_variants: vec![0],
            mod_secs: vec![1, 5, 10, 11, 30, 599, 600, 601, 100_000],
        }
    }
}

fn pick_from<Ty: Clone + std::fmt::Debug + 'static>(v: &[Ty]) -> BoxedStrategy<Ty> {
    let v = v.to_vec();
    (0..v.len()).prop_map(move |i| v[i].clone()).boxed()
}

pub fn arb_payload(rich: bool, big: u32) -> BoxedStrategy<Payload> {
    if !rich {
        return prop_oneof![
            40 => Just(Payload::plain()),
            5 => (0u8..3).prop_map(|a| Payload { kind: 0, len: 0, attrs: a, odd: false }),
            // a few really large messages (response-size budgets)
            big.max(1) => prop_oneof![Just(2_000_000u32), Just(2_600_000u32), Just(1_100_000u32), Just(100_000u32), Just(3_400_000u32)].prop_map(|len| Payload { kind: 4, len, attrs: 0, odd: false }),
        ]
        .boxed();
    }
    prop_oneof![
        2 => Just(Payload::plain()),
        2 => Just(Payload { kind: 1, len: 0, attrs: 0, odd: false }),
        1 => (0u8..4).prop_map(|a| Payload { kind: 1, len: 0, attrs: a, odd: true }),
        2 => (0u8..3).prop_map(|a| Payload { kind: 2, len: 0, attrs: a, odd: false }),
        2 => (0u8..21).prop_map(|a| Payload { kind: 3, len: 0, attrs: a, odd: false }),
        3 => (0u32..70_000, 0u8..21, any::<bool>()).prop_map(|(len, a, odd)| Payload { kind: 4, len, attrs: a, odd }),
        1 => (0u8..21).prop_map(|a| Payload { kind: 0, len: 0, attrs: a, odd: true }),
        2 => Just(Payload { kind: 5, len: 0, attrs: 0, odd: false }),
    ]
    .boxed()
}

pub fn arb_op(w: &W) -> BoxedStrategy<Op> {
    let t = arb_t(w.np, w.nt);
    let s = arb_s(w.np, w.ns);
    let a = proptest::bool::weighted(w.p_async).boxed();
    // now and then an empty id list (a legal request that still has to name an existing subscription)
    let refs = prop_oneof![
        20 => vec(arb_ref_m(w.bad_refs, w.malformed_refs), 1..4),
        w.empty_refs => Just(Vec::new()),
    ]
    .boxed();
    let dl = pick_from(&w.dls);
    let maxm = pick_from(&w.max_msgs);
    let adv = pick_from(&w.adv_ms);
    let secs = pick_from(&w.mod_secs);
    let pushv = pick_from(&w.push_variants);
    let bk = pick_from(&w.burst_kinds);
    let (bn0, bn1) = w.burst_n;
    let mut alts: Vec<(u32, BoxedStrategy<Op>)> = Vec::new();
    let mut add = |wt: u32, st: BoxedStrategy<Op>| {
        if wt > 0 {
            alts.push((wt, st));
        }
    };
    add(w.create_topic, (t.clone(), a.clone()).prop_map(|(t, a)| Op::CreateTopic { t, a }).boxed());
    add(w.delete_topic, (t.clone(), a.clone()).prop_map(|(t, a)| Op::DeleteTopic { t, a }).boxed());
    add(w.get_topic, (t.clone(), a.clone()).prop_map(|(t, a)| Op::GetTopic { t, a }).boxed());
    add(
        w.create_sub,
        (s.clone(), t.clone(), dl, pushv, a.clone()).prop_map(|(s, t, dl, push, a)| Op::CreateSub { s, t, dl, push, a }).boxed(),
    );
    add(w.delete_sub, (s.clone(), a.clone()).prop_map(|(s, a)| Op::DeleteSub { s, a }).boxed());
    add(w.get_sub, (s.clone(), a.clone()).prop_map(|(s, a)| Op::GetSub { s, a }).boxed());
    add(
        w.list,
        prop_oneof![
            (0..w.np, a.clone()).prop_map(|(p, a)| Op::ListTopics { p, size: 0, a }),
            (0..w.np, a.clone()).prop_map(|(p, a)| Op::ListSubs { p, size: 0, a }),
            (t.clone(), a.clone()).prop_map(|(t, a)| Op::ListTopicSubs { t, size: 0, a }),
        ]
        .boxed(),
    );
    add(
        w.publish,
        (t.clone(), 1u8..6, arb_payload(w.payload_rich, w.big_payload), a.clone()).prop_map(|(t, n, payload, a)| Op::Publish { t, n, payload, a }).boxed(),
    );
    add(
        w.publish_many,
        (t.clone(), prop_oneof![Just(31u32), Just(32), Just(33), Just(64), Just(65), Just(100), Just(255), Just(256), Just(257), Just(1000), Just(1001)], a.clone())
            .prop_map(|(t, n, a)| Op::PublishMany { t, n, a })
            .boxed(),
    );
    add(w.pull_ri, (s.clone(), maxm.clone(), a.clone()).prop_map(|(s, max, a)| Op::Pull { s, max, ri: true, a }).boxed());
    add(w.pull_block, (s.clone(), maxm.clone()).prop_map(|(s, max)| Op::Pull { s, max, ri: false, a: true }).boxed());
    add(w.pull_all, s.clone().prop_map(|s| Op::PullAll { s }).boxed());
    add(w.ack, (s.clone(), refs.clone(), a.clone()).prop_map(|(s, refs, a)| Op::Ack { s, refs, a }).boxed());
    add(w.long_ack, (s.clone(), arb_long_refs(false), a.clone()).prop_map(|(s, refs, a)| Op::Ack { s, refs, a }).boxed());
    add(w.long_ack, (s.clone(), arb_long_refs(false), secs.clone(), a.clone()).prop_map(|(s, refs, secs, a)| Op::Modify { s, refs, secs, a }).boxed());
    add(w.nack, (s.clone(), refs.clone(), a.clone()).prop_map(|(s, refs, a)| Op::Modify { s, refs, secs: 0, a }).boxed());
    add(w.modify, (s.clone(), refs.clone(), secs.clone(), a.clone()).prop_map(|(s, refs, secs, a)| Op::Modify { s, refs, secs, a }).boxed());
    add(w.empty_publish, (t.clone(), a.clone()).prop_map(|(t, a)| Op::Publish { t, n: 0, payload: Payload::plain(), a }).boxed());
    add(w.stream_open, (s.clone(), prop_oneof![Just(0i32), Just(1), Just(2), Just(10), Just(1000)]).prop_map(|(s, max_out)| Op::StreamOpen { s, max_out }).boxed());
    add(
        w.stream_send,
        (0u8..4, vec(arb_ref(w.bad_refs), 0..3), vec((arb_ref(w.bad_refs), prop_oneof![Just(0i32), Just(10), Just(30), Just(600)]), 0..3), 0u8..6)
            .prop_map(|(k, acks, mut mods, both)| {
                // now and then the request also modifies (nacks) what it acknowledges
                if both <= 1 {
                    mods.extend(acks.iter().map(|a| (a.clone(), if both == 0 { 0 } else { 30 })));
                }
                Op::StreamSend { k, acks, mods }
            })
            .boxed(),
    );
    add(w.stream_close, (0u8..4).prop_map(|k| Op::StreamCloseSend { k }).boxed());
    add(w.stream_drop, (0u8..4).prop_map(|k| Op::StreamDrop { k }).boxed());
    add(w.tick, (1u8..7).prop_map(|n| Op::Tick { n }).boxed());
    add(w.settle, Just(Op::Settle).boxed());
    add(w.advance, adv.prop_map(|ms| Op::Advance { ms }).boxed());
    add(
        w.goto,
        (s.clone(), 0u16..=65535, prop_oneof![Just(-2_000i64), Just(-1), Just(-1_000), Just(101_500), Just(102_000), Just(150_000), -3_000i64..0, 101_001i64..200_000])
            .prop_map(|(s, d, delta_us)| Op::GoTo { s, d, delta_us })
            .boxed(),
    );
    // between two deadlines that lie milliseconds apart (deliveries handed out in quick succession)
    add(
        (w.goto + 1) / 2,
        (s.clone(), 0u8..3, prop_oneof![Just(500i64), Just(1_000), Just(1_500), Just(3_000), Just(-500)]).prop_map(|(s, back, delta_us)| Op::GoToActual { s, back, delta_us }).boxed(),
    );
    add(w.abort, (0u8..8).prop_map(|c| Op::Abort { c }).boxed());
    add(
        w.abandon_pull,
        (s.clone(), maxm.clone(), any::<bool>(), 0u8..4, any::<bool>())
            .prop_map(|(s, max, ri, k, settle_between)| Op::PollDrop { op: Box::new(Op::Pull { s, max, ri, a: false }), k, settle_between })
            .boxed(),
    );
    add(
        w.abandon_ctrl,
        (s.clone(), t.clone(), 0u8..4, 0u8..5, any::<bool>())
            .prop_map(|(s, t, which, k, settle_between)| {
                let op = match which {
                    0 => Op::DeleteTopic { t, a: false },
                    1 => Op::DeleteSub { s, a: false },
                    2 => Op::CreateSub { s, t, dl: 10, push: 0, a: false },
                    _ => Op::CreateTopic { t, a: false },
                };
                Op::PollDrop { op: Box::new(op), k, settle_between }
            })
            .boxed(),
    );
    add(
        w.list_tok,
        (0u8..3, t.clone(), prop_oneof![Just(0i32), Just(1), Just(2), Just(1000)], prop_oneof![0u64..6, Just(50u64), Just(u64::MAX)])
            .prop_map(|(kind, t, size, off)| Op::ListTok { kind, p: 0, t, size, tok: Tok::Offset(off) })
            .boxed(),
    );
    add(w.burst, (bk, s.clone(), t.clone(), bn0..=bn1).prop_map(|(kind, s, t, n)| Op::Burst { kind, s, t, n }).boxed());
    add(w.check_lists, Just(Op::CheckLists).boxed());
    proptest::strategy::Union::new_weighted(alts).boxed()
}

/// Common prelude: create the topics, then the subscriptions.
pub fn arb_setup(w: &W, topics: std::ops::RangeInclusive<u8>, subs: std::ops::RangeInclusive<u8>) -> BoxedStrategy<Vec<Op>> {
    let dls = w.dls.clone();
    let nt = w.nt;
    (topics, subs, vec((0u8..nt, 0usize..dls.len().max(1)), 8))
        .prop_map(move |(ntop, nsub, picks)| {
            let mut ops = Vec::new();
            for i in 0..ntop.min(nt) {
                ops.push(Op::CreateTopic { t: T { p: 0, i }, a: false });
            }
            for j in 0..nsub {
                let (ti, di) = picks[j as usize % picks.len()];
                ops.push(Op::CreateSub { s: S { p: 0, i: j }, t: T { p: 0, i: ti % ntop.max(1) }, dl: dls[di % dls.len()], push: 0, a: false });
            }
            ops
        })
        .boxed()
}

pub fn arb_case(w: W, topics: std::ops::RangeInclusive<u8>, subs: std::ops::RangeInclusive<u8>, body: std::ops::Range<usize>, points: usize) -> BoxedStrategy<Case> {
    let jump = w.uptime_jump;
    (any::<u64>(), arb_phase(), any::<u64>(), arb_points(points), arb_setup(&w, topics, subs), vec(arb_op(&w), body), 0u32..jump.max(1))
        .prop_map(move |(sched_seed, phase_us, fanout_seed, points, mut setup, body, j)| {
            if jump > 0 && j == 0 {
                // a server that has been up for 200 days when the history begins
                setup.push(Op::Advance { ms: 17_280_000_123 });
            }
            setup.extend(body);
            Case { sched_seed, phase_us, fanout_seed, points, ops: setup }
        })
        .boxed()
}
