//! Supervisor / worker processes, proptest driving, shrinking, replay files, evidence.
use crate::case::Case;
use crate::model::{analyze, Report, Violation};
use crate::sim::{run_case, RunCfg};
use proptest::strategy::{BoxedStrategy, Strategy, ValueTree};
use proptest::test_runner::{Config, RngSeed, TestCaseError, TestError, TestRunner};
use serde::{Deserialize, Serialize};
use serde_json::{json, Value};
use std::collections::{BTreeMap, BTreeSet};
use std::path::{Path, PathBuf};

pub fn verif_root() -> PathBuf {
    if let Ok(p) = std::env::var("VERIF_ROOT") {
        return PathBuf::from(p);
    }
    // harness/target/debug/vcheck -> /verif
    let exe = std::env::current_exe().unwrap();
    exe.parent().and_then(|p| p.parent()).and_then(|p| p.parent()).and_then(|p| p.parent()).map(|p| p.to_path_buf()).unwrap_or_else(|| PathBuf::from("/verif"))
}

#[derive(Clone, Copy, Debug, PartialEq)]
pub enum Tier {
    Quick,
    Thorough,
}

impl Tier {
    pub fn name(&self) -> &'static str {
        match self {
            Tier::Quick => "quick",
            Tier::Thorough => "thorough",
        }
    }
}

#[derive(Clone, Debug, Serialize, Deserialize)]
pub struct Finding {
    pub property: String,
    pub status: String,
    pub rule: String,
    #[serde(default)]
    pub detail_contains: Option<String>,
    #[serde(default)]
    pub commit: Option<String>,
    pub description: String,
}

pub fn load_findings() -> Vec<Finding> {
    let p = verif_root().join("known_findings.json");
    match std::fs::read_to_string(&p) {
        Ok(s) => serde_json::from_str::<Value>(&s)
            .ok()
            .and_then(|v| v.get("findings").cloned())
            .and_then(|f| serde_json::from_value(f).ok())
            .unwrap_or_default(),
        Err(_) => Vec::new(),
    }
}

pub fn match_finding<'a>(findings: &'a [Finding], prop: &str, rule: &str, detail: &str) -> Option<&'a Finding> {
    findings.iter().find(|f| {
        f.status == "open" && f.property == prop && f.rule == rule && f.detail_contains.as_ref().map(|d| detail.contains(d.as_str())).unwrap_or(true)
    })
}

#[derive(Clone, Debug, Serialize, Deserialize, Default)]
pub struct Failure {
    pub rule: String,
    pub detail: String,
    pub engine: String,
    pub input: Value,
    pub trace: Value,
}

#[derive(Clone, Debug, Serialize, Deserialize, Default)]
pub struct WorkerOut {
    pub evaluations: u64,
    pub fingerprints: Vec<u64>,
    pub samples: Vec<Value>,
    pub classes: BTreeMap<String, u64>,
    pub other_hits: BTreeMap<String, u64>,
    pub known_hits: BTreeMap<String, u64>,
    pub excluded: u64,
    pub failure: Option<Failure>,
    pub notes: Vec<String>,
    pub exhaustive: Option<bool>,
    pub inconclusive: Option<String>,
}

impl WorkerOut {
    pub fn class(&mut self, k: &str) {
        *self.classes.entry(k.to_string()).or_insert(0) += 1;
    }
    pub fn merge(&mut self, o: WorkerOut) {
        self.evaluations += o.evaluations;
        self.fingerprints.extend(o.fingerprints);
        for s in o.samples {
            if self.samples.len() < 6 {
                self.samples.push(s);
            }
        }
        for (k, v) in o.classes {
            *self.classes.entry(k).or_insert(0) += v;
        }
        for (k, v) in o.other_hits {
            *self.other_hits.entry(k).or_insert(0) += v;
        }
        for (k, v) in o.known_hits {
            *self.known_hits.entry(k).or_insert(0) += v;
        }
        self.excluded += o.excluded;
        if self.failure.is_none() {
            self.failure = o.failure;
        }
        self.notes.extend(o.notes);
        self.exhaustive = match (self.exhaustive, o.exhaustive) {
            (Some(a), Some(b)) => Some(a && b),
            (a, None) => a,
            (None, b) => b,
        };
        if self.inconclusive.is_none() {
            self.inconclusive = o.inconclusive;
        }
    }
}

pub struct WorkerCtx {
    pub prop: String,
    pub tier: Tier,
    pub seed: u64,
    pub widx: u64,
    pub nworkers: u64,
    pub inflight: PathBuf,
    pub findings: Vec<Finding>,
}

impl WorkerCtx {
    /// share of `total` that this worker runs
    pub fn share(&self, total: u64) -> u64 {
        let base = total / self.nworkers;
        let extra = if self.widx < total % self.nworkers { 1 } else { 0 };
        base + extra
    }
    pub fn stage_seed(&self, stage: &str) -> u64 {
        let mut h = crate::trace::fnv(stage.as_bytes()) ^ crate::trace::fnv(self.prop.as_bytes()).rotate_left(17);
        h ^= self.seed.wrapping_mul(0x9E37_79B9_7F4A_7C15);
        h ^= self.widx.wrapping_mul(0xD6E8_FEB8_6659_FD93);
        h
    }
}

pub fn fingerprint<Ty: Serialize>(v: &Ty) -> u64 {
    crate::trace::fnv(serde_json::to_string(v).unwrap_or_default().as_bytes())
}

pub struct SimStage<'a> {
    pub name: &'a str,
    pub strategy: BoxedStrategy<Case>,
    pub cfg: RunCfg,
    pub cases: u64,
    /// is this case non-trivial by the property's rule?
    pub nontrivial: &'a dyn Fn(&Case, &Report) -> bool,
    /// labels for the class histogram
    pub classes: &'a dyn Fn(&Case, &Report) -> Vec<&'static str>,
    /// extra violations from a property-specific oracle over the trace
    pub extra: Option<&'a dyn Fn(&Case, &crate::trace::Trace, &Report) -> Vec<Violation>>,
}

fn sample_of(case: &Case) -> Value {
    let mut v = serde_json::to_value(case).unwrap_or(Value::Null);
    // keep samples readable
    if let Some(ops) = v.get_mut("ops").and_then(|o| o.as_array_mut()) {
        if ops.len() > 40 {
            ops.truncate(40);
            ops.push(json!("…"));
        }
    }
    v
}

/// Runs one proptest campaign over simulated histories.
pub fn run_sim_stage(ctx: &WorkerCtx, st: SimStage, out: &mut WorkerOut) {
    if out.failure.is_some() || st.cases == 0 {
        return;
    }
    let config = Config {
        cases: st.cases as u32,
        failure_persistence: None,
        max_shrink_iters: 800,
        rng_seed: RngSeed::Fixed(ctx.stage_seed(st.name)),
        ..Config::default()
    };
    let mut runner = TestRunner::new(config);
    #[derive(Default)]
    struct Acc {
        stopped: bool,
        fps: BTreeSet<u64>,
        evals: u64,
        samples: Vec<Value>,
        classes: BTreeMap<String, u64>,
        other: BTreeMap<String, u64>,
        known: BTreeMap<String, u64>,
        excluded: u64,
        last_fail: Option<(String, String)>,
    }
    let acc = std::cell::RefCell::new(Acc::default());
    let prop = ctx.prop.clone();
    let result = runner.run(&st.strategy, |case| {
        let _ = std::fs::write(&ctx.inflight, serde_json::to_vec(&json!({"engine":"sim","cfg":cfg_json(&st.cfg),"case":case})).unwrap_or_default());
        let tr = run_case(&case, &st.cfg);
        let mut rep = analyze(&tr);
        if let Some(extra) = st.extra {
            let more = extra(&case, &tr, &rep);
            rep.violations.extend(more);
        }
        let mut a = acc.borrow_mut();
        let counting = !a.stopped;
        let mut mine: Vec<&Violation> = Vec::new();
        let mut was_known = false;
        for v in &rep.violations {
            if v.props.iter().any(|p| *p == prop) {
                if let Some(f) = match_finding(&ctx.findings, &prop, &v.rule, &v.detail) {
                    if counting {
                        *a.known.entry(format!("{}: {}", f.rule, f.description)).or_insert(0) += 1;
                    }
                    was_known = true;
                } else {
                    mine.push(v);
                }
            } else if counting {
                *a.other.entry(format!("{}:{}", v.props.join("/"), v.rule)).or_insert(0) += 1;
            }
        }
        if counting {
            a.evals += 1;
            if was_known {
                a.excluded += 1;
            }
            let nt = (st.nontrivial)(&case, &rep);
            if nt {
                a.fps.insert(fingerprint(&case.ops));
                if a.samples.len() < 3 {
                    a.samples.push(sample_of(&case));
                }
            }
            for c in (st.classes)(&case, &rep) {
                *a.classes.entry(c.to_string()).or_insert(0) += 1;
            }
            if !tr.phase_ok {
                *a.classes.entry("phase_normalisation_failed".into()).or_insert(0) += 1;
            }
        }
        if let Some(v) = mine.first() {
            a.stopped = true;
            a.last_fail = Some((v.rule.clone(), v.detail.clone()));
            return Err(TestCaseError::fail(v.rule.clone()));
        }
        Ok(())
    });
    let Acc { fps, evals, samples, classes, other, known, excluded, last_fail, .. } = acc.into_inner();
    out.evaluations += evals;
    out.fingerprints.extend(fps);
    for s in samples {
        if out.samples.len() < 6 {
            out.samples.push(s);
        }
    }
    for (k, v) in classes {
        *out.classes.entry(format!("{}/{}", st.name, k)).or_insert(0) += v;
    }
    for (k, v) in other {
        *out.other_hits.entry(k).or_insert(0) += v;
    }
    for (k, v) in known {
        *out.known_hits.entry(k).or_insert(0) += v;
    }
    out.excluded += excluded;
    match result {
        Ok(()) => {}
        Err(TestError::Fail(_, case)) => {
            // re-run the minimal case once more to collect its trace and the violated rule
            let tr = run_case(&case, &st.cfg);
            let mut rep = analyze(&tr);
            if let Some(extra) = st.extra {
                let more = extra(&case, &tr, &rep);
                rep.violations.extend(more);
            }
            let v = rep
                .violations
                .iter()
                .find(|v| v.props.iter().any(|p| *p == prop) && match_finding(&ctx.findings, &prop, &v.rule, &v.detail).is_none())
                .cloned();
            let (rule, detail) = match v {
                Some(v) => (v.rule, v.detail),
                None => last_fail.clone().unwrap_or_default(),
            };
            out.failure = Some(Failure {
                rule,
                detail,
                engine: "sim".into(),
                input: json!({"engine":"sim","stage":st.name,"cfg":cfg_json(&st.cfg),"case":case}),
                trace: trace_json(&tr),
            });
        }
        Err(TestError::Abort(r)) => {
            out.notes.push(format!("stage {} aborted by proptest: {}", st.name, r));
        }
    }
}

pub fn cfg_json(c: &RunCfg) -> Value {
    json!({"horizon": c.horizon, "drain": c.drain, "qp_each_op": c.qp_each_op})
}
pub fn cfg_from_json(v: &Value) -> RunCfg {
    RunCfg {
        horizon: v.get("horizon").and_then(|x| x.as_bool()).unwrap_or(true),
        drain: v.get("drain").and_then(|x| x.as_bool()).unwrap_or(true),
        qp_each_op: v.get("qp_each_op").and_then(|x| x.as_bool()).unwrap_or(false),
    }
}

pub fn trace_json(tr: &crate::trace::Trace) -> Value {
    let mut lines: Vec<String> = Vec::new();
    for (i, e) in tr.events.iter().enumerate() {
        let mut s = format!("{:4} t={:>15}ns {:?}", i, e.t, e.kind);
        if s.len() > 400 {
            s.truncate(400);
            s.push('…');
        }
        if let crate::trace::EvKind::Invoke { call } | crate::trace::EvKind::Return { call } = &e.kind {
            let c = &tr.calls[*call];
            let extra = match &e.kind {
                crate::trace::EvKind::Invoke { .. } => format!(" {:?}", c.req),
                _ => format!(" {:?}", c.done.as_ref().map(|d| &d.2)),
            };
            let mut extra = extra;
            if extra.len() > 300 {
                extra.truncate(300);
                extra.push('…');
            }
            s.push_str(&extra);
        }
        lines.push(s);
        if lines.len() > 400 {
            lines.push("…".into());
            break;
        }
    }
    json!({"events": lines, "panics": tr.panics})
}

/// Generates one value from a strategy (used for corpus generation and samples).
pub fn generate_one<S: Strategy>(st: &S, seed: u64) -> S::Value {
    let mut runner = TestRunner::new(Config { rng_seed: RngSeed::Fixed(seed), failure_persistence: None, ..Config::default() });
    st.new_tree(&mut runner).unwrap().current()
}

pub fn write_replay(prop: &str, f: &Failure) -> PathBuf {
    let dir = verif_root().join("replays");
    let _ = std::fs::create_dir_all(&dir);
    let h = fingerprint(&f.input);
    let path = dir.join(format!("{}-{:016x}.json", prop, h));
    let v = json!({"property": prop, "rule": f.rule, "detail": f.detail, "engine": f.engine, "input": f.input, "trace": f.trace});
    let _ = std::fs::write(&path, serde_json::to_vec_pretty(&v).unwrap());
    path
}

pub fn read_json(p: &Path) -> Option<Value> {
    std::fs::read_to_string(p).ok().and_then(|s| serde_json::from_str(&s).ok())
}


/// Runs a fixed list of cases (sharded over the workers) through the simulator and the model.
pub fn run_case_list(ctx: &WorkerCtx, name: &str, cases: Vec<Case>, cfg: &RunCfg, out: &mut WorkerOut) {
    if out.failure.is_some() {
        return;
    }
    for (i, case) in cases.into_iter().enumerate() {
        if i as u64 % ctx.nworkers != ctx.widx {
            continue;
        }
        let _ = std::fs::write(&ctx.inflight, serde_json::to_vec(&json!({"engine":"sim","cfg":cfg_json(cfg),"case":case})).unwrap_or_default());
        let tr = run_case(&case, cfg);
        let rep = analyze(&tr);
        out.evaluations += 1;
        out.fingerprints.push(fingerprint(&case.ops));
        out.class(&format!("{}/fixed_case", name));
        for v in &rep.violations {
            if v.props.iter().any(|p| *p == ctx.prop) {
                if match_finding(&ctx.findings, &ctx.prop, &v.rule, &v.detail).is_some() {
                    *out.known_hits.entry(v.rule.clone()).or_insert(0) += 1;
                    continue;
                }
                out.failure = Some(Failure { rule: v.rule.clone(), detail: v.detail.clone(), engine: "sim".into(), input: json!({"engine":"sim","stage":name,"cfg":cfg_json(cfg),"case":case}), trace: trace_json(&tr) });
                return;
            } else {
                *out.other_hits.entry(format!("{}:{}", v.props.join("/"), v.rule)).or_insert(0) += 1;
            }
        }
    }
}
