//! Engine FLOW (C19): FlowControl waiters.
//! (a) deterministic interleaving explorer: waiters are polled by hand with flag wakers,
//!     inc/dec are placed between polls;
//! (b) real-thread stress for the interleavings inside one poll.
use crate::runner::*;
use deltio::subscriptions::flow_control::{self, FlowControl};
use proptest::prelude::*;
use proptest::test_runner::{Config, RngSeed, TestCaseError, TestError, TestRunner};
use serde::{Deserialize, Serialize};
use serde_json::json;
use std::future::Future;
use std::pin::Pin;
use std::sync::atomic::{AtomicBool, Ordering};
use std::sync::Arc;
use std::task::{Context, Poll, Wake, Waker};

#[derive(Clone, Debug, Serialize, Deserialize, PartialEq)]
pub enum FOp {
    NewWaiter,
    Poll(u8),
    Inc(u8, u8),
    Dec(u8, u8),
    DropWaiter(u8),
}

#[derive(Clone, Debug, Serialize, Deserialize, PartialEq)]
pub struct FCase {
    pub max_bytes: u64,
    pub max_msgs: u64,
    pub ops: Vec<FOp>,
}

struct Flag(AtomicBool);
impl Wake for Flag {
    fn wake(self: Arc<Self>) {
        self.0.store(true, Ordering::SeqCst);
    }
}

struct Waiter<'a> {
    fut: Pin<Box<dyn Future<Output = ()> + 'a>>,
    flag: Arc<Flag>,
    parked: bool,
    done: bool,
}

/// Runs one explorer case; returns (violation, was_nontrivial).
pub fn run_fcase(c: &FCase) -> (Option<(String, String)>, bool) {
    let fc: FlowControl = flow_control::create(c.max_bytes, c.max_msgs);
    let (mut bytes, mut msgs) = (0u64, 0u64);
    let mut waiters: Vec<Waiter> = Vec::new();
    let mut nontrivial = false;
    let space = |b: u64, m: u64| b < c.max_bytes && m < c.max_msgs;
    for (step, op) in c.ops.iter().enumerate() {
        match op {
            FOp::NewWaiter => {
                if waiters.len() < 6 {
                    waiters.push(Waiter { fut: Box::pin(fc.wait_for_available_space()), flag: Arc::new(Flag(AtomicBool::new(false))), parked: false, done: false });
                }
            }
            FOp::DropWaiter(i) => {
                if !waiters.is_empty() {
                    let i = *i as usize % waiters.len();
                    waiters.remove(i);
                }
            }
            FOp::Poll(i) => {
                if waiters.is_empty() {
                    continue;
                }
                let i = *i as usize % waiters.len();
                let w = &mut waiters[i];
                if w.done {
                    continue;
                }
                w.flag.0.store(false, Ordering::SeqCst);
                let waker = Waker::from(w.flag.clone());
                let mut cx = Context::from_waker(&waker);
                let r = w.fut.as_mut().poll(&mut cx);
                let has = space(bytes, msgs);
                match r {
                    Poll::Ready(()) => {
                        w.done = true;
                        w.parked = false;
                        if !has {
                            return (Some(("resumed_without_space".into(), format!("step {}: waiter {} resumed although bytes={}/{} messages={}/{}", step, i, bytes, c.max_bytes, msgs, c.max_msgs))), nontrivial);
                        }
                    }
                    Poll::Pending => {
                        w.parked = true;
                        if has {
                            return (Some(("did_not_resume_with_space".into(), format!("step {}: waiter {} stays pending although bytes={}/{} messages={}/{}", step, i, bytes, c.max_bytes, msgs, c.max_msgs))), nontrivial);
                        }
                    }
                }
            }
            FOp::Inc(b, m) | FOp::Dec(b, m) => {
                let parked_before = waiters.iter().filter(|w| w.parked && !w.done).count();
                match op {
                    FOp::Inc(..) => {
                        fc.inc(*b as u64, *m as u64);
                        bytes += *b as u64;
                        msgs += *m as u64;
                    }
                    _ => {
                        let (db, dm) = ((*b as u64).min(bytes), (*m as u64).min(msgs));
                        fc.dec(db, dm);
                        bytes -= db;
                        msgs -= dm;
                    }
                }
                if parked_before >= 2 {
                    nontrivial = true;
                }
                if space(bytes, msgs) {
                    // every parked waiter must have been woken by this one change
                    for (i, w) in waiters.iter().enumerate() {
                        if w.parked && !w.done && !w.flag.0.load(Ordering::SeqCst) {
                            return (
                                Some(("parked_waiter_not_woken".into(), format!("step {}: capacity is free (bytes={}/{} messages={}/{}) but parked waiter {} of {} was not woken", step, bytes, c.max_bytes, msgs, c.max_msgs, i, waiters.len()))),
                                nontrivial,
                            );
                        }
                    }
                }
            }
        }
    }
    (None, nontrivial)
}

fn arb_fop() -> BoxedStrategy<FOp> {
    prop_oneof![
        3 => Just(FOp::NewWaiter),
        6 => (0u8..6).prop_map(FOp::Poll),
        4 => (0u8..4, 0u8..3).prop_map(|(b, m)| FOp::Inc(b, m)),
        4 => (0u8..4, 0u8..3).prop_map(|(b, m)| FOp::Dec(b, m)),
        1 => (0u8..6).prop_map(FOp::DropWaiter),
    ]
    .boxed()
}

fn arb_fcase() -> BoxedStrategy<FCase> {
    (prop_oneof![Just(1u64), Just(2), Just(5), Just(16)], prop_oneof![Just(1u64), Just(2), Just(5)], proptest::collection::vec(arb_fop(), 1..24))
        .prop_map(|(max_bytes, max_msgs, ops)| FCase { max_bytes, max_msgs, ops })
        .boxed()
}

const ENUM_OPS: &[FOp] = &[FOp::NewWaiter, FOp::Poll(0), FOp::Poll(1), FOp::Poll(2), FOp::Inc(1, 1), FOp::Inc(0, 1), FOp::Dec(1, 1), FOp::Dec(1, 0)];

fn explorer(ctx: &WorkerCtx, out: &mut WorkerOut) {
    // exhaustive: all sequences over ENUM_OPS up to a bound, limits (1,1) and (2,2)
    let maxlen = match ctx.tier {
        Tier::Quick => 6usize,
        Tier::Thorough => 8usize,
    };
    let n = ENUM_OPS.len() as u64;
    let mut evals = 0u64;
    let mut g = 0u64;
    for (mb, mm) in [(1u64, 1u64), (2, 2), (1, 5)] {
        for len in 1..=maxlen {
            for idx in 0..n.pow(len as u32) {
                g += 1;
                if g % ctx.nworkers != ctx.widx {
                    continue;
                }
                let mut ops = Vec::with_capacity(len);
                let mut k = idx;
                for _ in 0..len {
                    ops.push(ENUM_OPS[(k % n) as usize].clone());
                    k /= n;
                }
                let case = FCase { max_bytes: mb, max_msgs: mm, ops };
                evals += 1;
                let (v, nt) = run_fcase(&case);
                if nt {
                    out.fingerprints.push(fingerprint(&case));
                    if out.samples.len() < 2 {
                        out.samples.push(serde_json::to_value(&case).unwrap());
                    }
                }
                if let Some((rule, detail)) = v {
                    out.evaluations += evals;
                    out.failure = Some(Failure { rule, detail, engine: "flow_explorer".into(), input: json!({"engine":"flow_explorer","case":case}), trace: json!(null) });
                    return;
                }
            }
        }
    }
    out.evaluations += evals;
    out.exhaustive = Some(true);
    out.notes.push(format!("explorer: every sequence of up to {} operations from {:?} for limits (1,1), (2,2), (1,5) (sharded)", maxlen, ENUM_OPS));
    // random longer sequences
    let cases = ctx.share(match ctx.tier {
        Tier::Quick => 40_000,
        Tier::Thorough => 2_000_000,
    });
    let mut runner = TestRunner::new(Config { cases: cases as u32, failure_persistence: None, rng_seed: RngSeed::Fixed(ctx.stage_seed("flow_random")), max_shrink_iters: 4000, ..Config::default() });
    let acc = std::cell::RefCell::new((0u64, Vec::<u64>::new(), false, Vec::<serde_json::Value>::new()));
    let result = runner.run(&arb_fcase(), |case| {
        let (v, nt) = run_fcase(&case);
        let mut a = acc.borrow_mut();
        if !a.2 {
            a.0 += 1;
            if nt {
                a.1.push(fingerprint(&case));
                if a.3.len() < 2 {
                    a.3.push(serde_json::to_value(&case).unwrap());
                }
            }
        }
        if let Some((rule, detail)) = v {
            a.2 = true;
            return Err(TestCaseError::fail(format!("{}||{}", rule, detail)));
        }
        Ok(())
    });
    let (n_rand, fps, _, samples) = acc.into_inner();
    out.evaluations += n_rand;
    out.fingerprints.extend(fps);
    for s in samples {
        if out.samples.len() < 6 {
            out.samples.push(s);
        }
    }
    if let Err(TestError::Fail(reason, case)) = result {
        let msg = reason.message().to_string();
        let (rule, detail) = msg.split_once("||").map(|(a, b)| (a.to_string(), b.to_string())).unwrap_or((msg.clone(), msg.clone()));
        out.failure = Some(Failure { rule, detail, engine: "flow_explorer".into(), input: json!({"engine":"flow_explorer","case":case}), trace: json!(null) });
    }
}

#[derive(Clone, Debug, Serialize, Deserialize, PartialEq)]
pub struct StressProgram {
    pub max_bytes: u64,
    pub max_msgs: u64,
    pub waiters: u8,
    /// spin iterations before the freeing dec
    pub spin: u32,
    /// optional noise thread: (spin, inc then dec of this size)
    pub noise: Option<(u32, u8)>,
}

/// One stress round with real threads. Ok(()) if every waiter completed.
pub fn stress_round(p: &StressProgram, timeout: std::time::Duration) -> Result<(), String> {
    let fc = Arc::new(flow_control::create(p.max_bytes, p.max_msgs));
    fc.inc(p.max_bytes, p.max_msgs); // no space
    let n = p.waiters.max(1) as usize;
    let barrier = Arc::new(std::sync::Barrier::new(n + 1 + p.noise.is_some() as usize));
    let (tx, rx) = std::sync::mpsc::channel::<usize>();
    for i in 0..n {
        let fc = fc.clone();
        let b = barrier.clone();
        let tx = tx.clone();
        std::thread::spawn(move || {
            b.wait();
            futures::executor::block_on(fc.wait_for_available_space());
            let _ = tx.send(i);
        });
    }
    if let Some((spin, k)) = p.noise {
        let fc = fc.clone();
        let b = barrier.clone();
        std::thread::spawn(move || {
            b.wait();
            for _ in 0..spin {
                std::hint::spin_loop();
            }
            fc.inc(k as u64, 0);
            fc.dec(k as u64, 0);
        });
    }
    {
        let fc = fc.clone();
        let b = barrier.clone();
        let spin = p.spin;
        std::thread::spawn(move || {
            b.wait();
            for _ in 0..spin {
                std::hint::spin_loop();
            }
            fc.dec(1, 1); // frees capacity
        });
    }
    let mut done = 0;
    let deadline = std::time::Instant::now() + timeout;
    while done < n {
        let left = deadline.saturating_duration_since(std::time::Instant::now());
        match rx.recv_timeout(left) {
            Ok(_) => done += 1,
            Err(_) => {
                return Err(format!("{} of {} waiters never resumed although capacity was freed (program {:?})", n - done, n, p));
            }
        }
    }
    Ok(())
}

fn stress(ctx: &WorkerCtx, out: &mut WorkerOut) {
    // only half of the workers stress, so that threads are not oversubscribed
    if ctx.widx % 2 != 0 {
        return;
    }
    let rounds = match ctx.tier {
        Tier::Quick => 40_000u64,
        Tier::Thorough => 1_000_000u64,
    } / (ctx.nworkers / 2).max(1);
    let mut x = ctx.stage_seed("flow_stress") | 1;
    let mut next = move || {
        x ^= x << 13;
        x ^= x >> 7;
        x ^= x << 17;
        x
    };
    let mut evals = 0;
    for r in 0..rounds {
        let p = StressProgram {
            max_bytes: [1, 2, 16][(next() % 3) as usize],
            max_msgs: [1, 2, 5][(next() % 3) as usize],
            waiters: 1 + (next() % 3) as u8,
            spin: (next() % 400) as u32,
            noise: if next() % 3 == 0 { Some(((next() % 400) as u32, 1 + (next() % 2) as u8)) } else { None },
        };
        evals += 1;
        if p.waiters >= 2 || p.noise.is_some() {
            out.fingerprints.push(fingerprint(&p) ^ r);
        }
        if out.samples.len() < 4 && r < 2 {
            out.samples.push(serde_json::to_value(&p).unwrap());
        }
        if let Err(e) = stress_round(&p, std::time::Duration::from_secs(20)) {
            out.evaluations += evals;
            out.failure = Some(Failure { rule: "waiter_never_resumed".into(), detail: e, engine: "flow_stress".into(), input: json!({"engine":"flow_stress","program":p}), trace: json!(null) });
            return;
        }
    }
    out.evaluations += evals;
    out.class("stress_rounds_with_real_threads");
}

pub fn flow_check(ctx: &WorkerCtx, out: &mut WorkerOut) {
    explorer(ctx, out);
    if out.failure.is_none() {
        stress(ctx, out);
    }
}

pub fn replay_flow(input: &serde_json::Value) -> Result<Vec<crate::model::Violation>, String> {
    let mut v = Vec::new();
    match input.get("engine").and_then(|e| e.as_str()) {
        Some("flow_explorer") => {
            let case: FCase = serde_json::from_value(input.get("case").cloned().ok_or("no case")?).map_err(|e| e.to_string())?;
            if let (Some((rule, detail)), _) = run_fcase(&case) {
                v.push(crate::model::Violation { rule, props: vec!["C19".into()], at: 0, detail });
            }
        }
        _ => {
            let p: StressProgram = serde_json::from_value(input.get("program").cloned().ok_or("no program")?).map_err(|e| e.to_string())?;
            for _ in 0..10_000 {
                if let Err(e) = stress_round(&p, std::time::Duration::from_secs(20)) {
                    v.push(crate::model::Violation { rule: "waiter_never_resumed".into(), props: vec!["C19".into()], at: 0, detail: e });
                    break;
                }
            }
        }
    }
    Ok(v)
}
