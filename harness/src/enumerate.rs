//! Bounded-exhaustive enumeration of operation sequences (C02, shared alphabet with C05).
use crate::case::*;
use crate::model::analyze;
use crate::runner::*;
use crate::sim::{run_case, RunCfg};
use serde_json::json;

const S0: S = S { p: 0, i: 0 };
const T0: T = T { p: 0, i: 0 };

fn sym_a(k: usize) -> Op {
    match k {
        0 => Op::Publish { t: T0, n: 1, payload: Payload::plain(), a: false },
        1 => Op::Pull { s: S0, max: 1, ri: true, a: false },
        2 => Op::Pull { s: S0, max: 2, ri: true, a: false },
        3 => Op::Ack { s: S0, refs: vec![AckRef::Recent(0)], a: false },
        4 => Op::Ack { s: S0, refs: vec![AckRef::Own(0)], a: false },
        5 => Op::Ack { s: S0, refs: vec![AckRef::Unknown(7)], a: false },
        6 => Op::Modify { s: S0, refs: vec![AckRef::Recent(0)], secs: 0, a: false },
        7 => Op::Modify { s: S0, refs: vec![AckRef::Recent(0)], secs: 3, a: false },
        8 => Op::Modify { s: S0, refs: vec![AckRef::Own(0)], secs: 20, a: false },
        9 => Op::Advance { ms: 5_000 },
        10 => Op::Advance { ms: 10_200 },
        _ => Op::Ack { s: S0, refs: vec![AckRef::Foreign(0)], a: false },
    }
}
const NA: usize = 12;

/// variant B: a stream is open on the subscription; acks and modifications travel as
/// StreamingPull control messages
fn sym_b(k: usize) -> Op {
    match k {
        0 => Op::Publish { t: T0, n: 1, payload: Payload::plain(), a: false },
        1 => Op::StreamSend { k: 0, acks: vec![AckRef::Recent(0)], mods: vec![] },
        2 => Op::StreamSend { k: 0, acks: vec![AckRef::Own(0)], mods: vec![] },
        3 => Op::StreamSend { k: 0, acks: vec![AckRef::Unknown(9)], mods: vec![] },
        4 => Op::StreamSend { k: 0, acks: vec![], mods: vec![(AckRef::Recent(0), 0)] },
        5 => Op::StreamSend { k: 0, acks: vec![], mods: vec![(AckRef::Recent(0), 20)] },
        6 => Op::Advance { ms: 5_000 },
        _ => Op::Advance { ms: 10_200 },
    }
}
const NB: usize = 8;

/// variant C: control messages that carry an acknowledgement and a modification at once
fn sym_c(k: usize) -> Op {
    match k {
        0 => Op::Publish { t: T0, n: 1, payload: Payload::plain(), a: false },
        1 => Op::StreamSend { k: 0, acks: vec![AckRef::Recent(0)], mods: vec![(AckRef::Recent(0), 0)] },
        2 => Op::StreamSend { k: 0, acks: vec![AckRef::Recent(0)], mods: vec![(AckRef::Recent(0), 20)] },
        3 => Op::StreamSend { k: 0, acks: vec![AckRef::Own(0)], mods: vec![(AckRef::Recent(0), 0)] },
        4 => Op::StreamSend { k: 0, acks: vec![], mods: vec![(AckRef::Recent(0), 0)] },
        _ => Op::Advance { ms: 10_200 },
    }
}
const NC: usize = 6;

fn build(variant: u8, mut idx: u64, len: usize) -> Case {
    let n = match variant {
        0 => NA,
        1 => NB,
        _ => NC,
    } as u64;
    let mut ops = vec![
        Op::CreateTopic { t: T0, a: false },
        Op::CreateSub { s: S0, t: T0, dl: 10, push: 0, a: false },
        Op::CreateSub { s: S { p: 0, i: 1 }, t: T0, dl: 10, push: 0, a: false },
    ];
    if variant >= 1 {
        ops.push(Op::StreamOpen { s: S0, max_out: if variant == 1 { 1 } else { 2 } });
    }
    for _ in 0..len {
        let k = (idx % n) as usize;
        idx /= n;
        ops.push(match variant {
            0 => sym_a(k),
            1 => sym_b(k),
            _ => sym_c(k),
        });
    }
    Case { sched_seed: 1, phase_us: 37_000, fanout_seed: 0, points: vec![], ops }
}

pub fn c02_enumeration(ctx: &WorkerCtx, out: &mut WorkerOut) {
    let (la, lb) = match ctx.tier {
        Tier::Quick => (4usize, 5usize),
        Tier::Thorough => (6usize, 7usize),
    };
    let (la, lb) = match std::env::var("VERIF_ENUM_LEN").ok().and_then(|s| s.parse::<usize>().ok()) {
        Some(l) => (l, l + 1),
        None => (la, lb),
    };
    let cfg = RunCfg { horizon: false, drain: true, qp_each_op: true };
    let mut global = 0u64;
    let mut evals = 0u64;
    let mut nontrivial = 0u64;
    for (variant, maxlen, n) in [(0u8, la, NA as u64), (1u8, lb, NB as u64), (2u8, lb, NC as u64)] {
        for len in 1..=maxlen {
            let total = n.pow(len as u32);
            for idx in 0..total {
                global += 1;
                if global % ctx.nworkers != ctx.widx {
                    continue;
                }
                let case = build(variant, idx, len);
                let _ = std::fs::write(&ctx.inflight, serde_json::to_vec(&json!({"engine":"sim","cfg":cfg_json(&cfg),"case":case})).unwrap_or_default());
                let tr = run_case(&case, &cfg);
                let rep = analyze(&tr);
                evals += 1;
                let nt = (rep.feat.acks_effective > 0 && rep.feat.ack_with_other_outstanding_then_deadline_passed) || rep.feat.stale_or_unknown_ack_while_outstanding;
                if nt {
                    nontrivial += 1;
                    out.fingerprints.push(fingerprint(&case.ops));
                    if out.samples.len() < 2 {
                        out.samples.push(serde_json::to_value(&case).unwrap());
                    }
                }
                if rep.feat.stats_compared > 0 {
                    out.class("enumerated/stats_compared_with_model");
                }
                if rep.feat.expiry_redeliveries > 0 {
                    out.class("enumerated/expiry_redelivery");
                }
                for v in &rep.violations {
                    if v.props.iter().any(|p| *p == ctx.prop) {
                        if match_finding(&ctx.findings, &ctx.prop, &v.rule, &v.detail).is_some() {
                            *out.known_hits.entry(v.rule.clone()).or_insert(0) += 1;
                            continue;
                        }
                        out.evaluations += evals;
                        out.failure = Some(Failure {
                            rule: v.rule.clone(),
                            detail: v.detail.clone(),
                            engine: "sim".into(),
                            input: json!({"engine":"sim","stage":"enumerated","cfg":cfg_json(&cfg),"case":case}),
                            trace: trace_json(&tr),
                        });
                        return;
                    } else {
                        *out.other_hits.entry(format!("{}:{}", v.props.join("/"), v.rule)).or_insert(0) += 1;
                    }
                }
            }
        }
    }
    out.evaluations += evals;
    out.exhaustive = Some(true);
    out.notes.push(format!(
        "enumerated every sequence over the {}-symbol unary alphabet up to length {} and over the {}-symbol streaming alphabet up to length {} (this worker's shard: {} sequences, {} non-trivial)",
        NA, la, NB, lb, evals, nontrivial
    ));
}
