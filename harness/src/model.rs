//! Observation-driven reference model of the Pub/Sub semantics the listed properties
//! state, applied post-hoc to a recorded trace. It tracks what must, may and must not be
//! true; every response is checked against that and then used to advance the model.
//! Whenever the history leaves something undetermined (overlapping calls, abandoned calls,
//! statuses the properties do not pin down, instants inside a deadline's slack window) the
//! affected rules are suspended rather than guessed.
use crate::trace::*;
use serde::{Deserialize, Serialize};
use std::collections::{BTreeMap, HashMap, HashSet};

pub const SEC: u64 = 1_000_000_000;
/// rounding (<100 ms) + timer tick (1 ms)
pub const SLACK: u64 = 101_000_000;

#[derive(Clone, Debug, Serialize, Deserialize)]
pub struct Violation {
    pub rule: String,
    pub props: Vec<String>,
    pub at: usize,
    pub detail: String,
}

#[derive(Clone, Debug, Default, Serialize, Deserialize)]
pub struct Features {
    pub calls: usize,
    pub deliveries: usize,
    pub redeliveries: usize,
    pub expiry_redeliveries: usize,
    pub nack_redeliveries: usize,
    pub max_subs_on_topic_at_publish: usize,
    pub overlapping_publishes: bool,
    pub create_delete_overlapping_publish: bool,
    pub acks_effective: usize,
    pub ack_with_other_outstanding_then_deadline_passed: bool,
    pub stale_or_unknown_ack_while_outstanding: bool,
    pub max_concurrent_consumers: usize,
    pub concurrent_consumers_with_2_msgs: bool,
    pub distinct_deadlines_coexisting: usize,
    pub probes_before_deadline: usize,
    pub probes_after_deadline: usize,
    pub modify_mixed_classes: bool,
    pub modify_shorten_or_repeat: bool,
    pub modify_rejected: usize,
    pub avail_event_with_waiter: bool,
    pub waiters_max: usize,
    pub abort_of_consumer: bool,
    pub max_in_flight: usize,
    pub burst_over_mailbox: bool,
    pub burst_with_publish_or_delete: bool,
    pub publishes_ok: usize,
    pub subs_with_first_deliveries: usize,
    pub redelivered_with_attrs_or_binary: bool,
    pub topic_instances_same_name: usize,
    pub overlapping_control_on_name: bool,
    pub delete_then_recreate_with_survivor: bool,
    pub delete_with_open_stream_or_blocked_pull: bool,
    pub walks_multi_page_after_delete: usize,
    pub hostile_tokens: usize,
    pub backlog_over_limit: bool,
    pub big_limit: bool,
    pub blocking_pull_waited: bool,
    pub stats_compared: usize,
    pub qps: usize,
    pub stream_ctrl_msgs: usize,
    pub aborted_inside_handler: usize,
    pub point_yields_used: usize,
}

#[derive(Clone, Debug, Default, Serialize, Deserialize)]
pub struct Report {
    pub violations: Vec<Violation>,
    pub feat: Features,
}

#[derive(Clone, Debug, PartialEq)]
enum Why {
    Publish,
    Expiry,
    ModExpiry,
    Nack,
    Abandon,
}

#[derive(Clone, Debug)]
enum Ms {
    /// may or may not have been posted at all
    Maybe,
    /// exists on the subscription, but may be leased to an abandoned consumer
    MaybeLeased,
    Queued { why: Why, since: usize },
    Leased {
        ack: String,
        lo: u64,
        hi: u64,
        modified: bool,
        /// an ack or nack naming this lease is in flight or indeterminate
        maybe_gone: bool,
        maybe_acked: bool,
        /// latest end of the lease implied by the modifications resolved so far (`hi` is
        /// infinite while a modification is still in flight)
        hi_known: u64,
    },
    Acked,
    /// acknowledged or queued, not known which
    Limbo,
}

struct TopicInst {
    name: String,
    ci: usize,
    cr: usize,
    del_i: Option<usize>,
    del_r: Option<usize>,
    /// event index of the latest GetTopic that found this instance
    seen_alive: Option<usize>,
    /// event index of the latest view of one of its subscriptions that said `_deleted_topic_`
    reported_deleted: Option<usize>,
}

struct SubInst {
    name: String,
    topic_name: String,
    topic_inst: Option<usize>,
    d: u64,
    ci: usize,
    cr: usize,
    del_i: Option<usize>,
    del_r: Option<usize>,
    msgs: BTreeMap<u64, Ms>,
    seen_ack: HashSet<String>,
    /// time until which phantom leases of abandoned consumers may exist
    tainted_until: u64,
    ever_tainted: bool,
    /// indices of events touching this subscription
    activity: u64,
    consumers: HashSet<CallId>,
    mutators: HashSet<CallId>,
    /// pending stream control messages (event idx, stream call)
    pending_ctrl: Vec<(usize, CallId, Vec<String>, Vec<(String, i32)>, u64, bool)>,
    first_deliveries: Vec<(u64, usize, usize, u128)>, // mkey, lo_idx, hi_idx, id
    /// a consumer call of this subscription was abandoned since the last quiescent point
    consumer_abort_since_qp: bool,
    /// number of distinct ack ids under which each message was handed out
    lease_count: HashMap<u64, u32>,
    delivered_once: HashSet<u64>,
    view: Option<SubView>,
    req_push: Option<PushReq>,
    req_dl: i32,
    c12_checked: bool,
    /// message -> event index at which its current lease's delivery (or its acknowledgement's
    /// return) was observed; a later-observed event whose call began before that index is not
    /// ordered after it
    state_seen: HashMap<u64, usize>,
    /// ack id -> message of the lease it was issued for (may be stale; always re-checked)
    lease_by_ack: HashMap<String, u64>,
    obligations: HashSet<u64>,
    /// every ack / modify request on this subscription: (invoke idx, end idx, acked ids, (id, seconds))
    #[allow(clippy::type_complexity)]
    mutations: Vec<(usize, usize, Vec<String>, Vec<(String, i32)>)>,
}

#[derive(Default)]
struct NameState {
    inst: Option<usize>,
    flux: usize,
    unknown: bool,
    /// event index of the latest invoke / return / abort of a create or delete of the name
    last_ctrl: usize,
}

struct StreamState {
    sub_inst: Option<usize>,
    sub: String,
    max_out: i64,
    open: bool,
    ended: Option<Option<i32>>,
    aborted: bool,
    last_msg_idx: usize,
    ctrl_since_qp: bool,
    invalid_ctrl_sent: bool,
    close_sent: bool,
}

pub struct Model<'a> {
    tr: &'a Trace,
    topics: Vec<TopicInst>,
    subs: Vec<SubInst>,
    tnames: HashMap<String, NameState>,
    snames: HashMap<String, NameState>,
    id_to_mkey: HashMap<String, u64>,
    seen_pub_ids: HashMap<String, u64>,
    mkey_to_id: HashMap<u64, String>,
    mrec: HashMap<u64, &'a MsgRec>,
    pub_time_seen: HashMap<u64, (i64, i32)>,
    streams: HashMap<CallId, StreamState>,
    pull_snapshot: HashMap<CallId, (u64, usize, usize, bool)>, // activity at invoke, avail count, inst, calm
    ack_snapshot: HashMap<CallId, Vec<(usize, u64, bool, bool)>>, // (inst, mkey, definitely_live, in_window)
    inflight_pubs: HashSet<CallId>,
    delete_target: HashMap<CallId, usize>,
    mod_snapshots: HashMap<CallId, Vec<ModSnap>>,
    #[allow(clippy::type_complexity)]
    stream_snaps: HashMap<usize, (Vec<(usize, u64, bool, bool)>, Vec<ModSnap>)>,
    walks: HashMap<usize, WalkAcc>,
    last_mutation_idx: usize,
    stalled_now: usize,
    rep: Report,
    now: u64,
    idx: usize,
    drain_started: bool,
    stuck_reported: bool,
    last_qp_idx: usize,
    /// per unary Acknowledge call: what was known about each named lease before the call
    ack_prior: HashMap<CallId, Vec<(usize, u64, bool)>>,
    token_format_ok: bool,
}

/// (instance, mkey, lease definitely live at invoke, seconds, lo before, ack id, hi before, event idx of the request)
type ModSnap = (usize, u64, bool, i32, u64, String, u64, usize);

fn parse_id(s: &str) -> Option<u128> {
    s.parse::<u128>().ok()
}

fn eff_secs(n: i32) -> u64 {
    if n >= 600 {
        600
    } else {
        n.max(0) as u64
    }
}

/// The server's ack ids are decimal numbers; strings that denote the same number ("01", "+1")
/// are the same id as far as the model is concerned.
pub fn norm_ack(a: &str) -> String {
    match a.parse::<u64>() {
        Ok(n) => n.to_string(),
        Err(_) => a.to_string(),
    }
}

pub fn valid_ack_id(s: &str) -> bool {
    // decimal u64 as accepted by the documented ack ID format
    !s.is_empty() && s.len() <= 20 && s.bytes().all(|b| b.is_ascii_digit()) && s.parse::<u64>().is_ok()
        || (s.starts_with('+') && s.len() > 1 && s[1..].bytes().all(|b| b.is_ascii_digit()) && s[1..].parse::<u64>().is_ok())
}

impl<'a> Model<'a> {
    fn v(&mut self, rule: &str, props: &[&str], detail: String) {
        self.rep.violations.push(Violation {
            rule: rule.to_string(),
            props: props.iter().map(|s| s.to_string()).collect(),
            at: self.idx,
            detail,
        });
    }

    fn cur_sub(&self, name: &str) -> Option<usize> {
        self.snames.get(name).and_then(|n| n.inst)
    }

    fn sub_definite(&self, name: &str) -> Option<usize> {
        let n = self.snames.get(name)?;
        if n.flux == 0 && !n.unknown {
            n.inst
        } else {
            None
        }
    }

    fn touch(&mut self, name: &str) {
        if let Some(i) = self.cur_sub(name) {
            self.subs[i].activity += 1;
        }
    }

    /// Move every lease whose window has certainly closed back to the queue.
    fn time_rule(&mut self) {
        let now = self.now;
        let idx = self.idx;
        for s in self.subs.iter_mut() {
            if s.del_r.is_some() {
                continue;
            }
            if s.tainted_until != 0 && now > s.tainted_until {
                // phantom leases have certainly ended: whatever was uncertain is queued now
                s.tainted_until = 0;
                for (_, st) in s.msgs.iter_mut() {
                    if matches!(st, Ms::MaybeLeased) {
                        *st = Ms::Queued { why: Why::Abandon, since: idx };
                    }
                }
            }
            for (_, st) in s.msgs.iter_mut() {
                if let Ms::Leased { hi, modified, maybe_gone, maybe_acked, .. } = st {
                    if now > *hi {
                        if *maybe_acked {
                            *st = Ms::Limbo;
                        } else if *maybe_gone {
                            *st = Ms::Queued { why: Why::Nack, since: idx };
                        } else {
                            let why = if *modified { Why::ModExpiry } else { Why::Expiry };
                            *st = Ms::Queued { why, since: idx };
                        }
                    }
                }
            }
        }
    }

    fn is_calm(&self, i: usize, except: Option<CallId>) -> bool {
        let s = &self.subs[i];
        let n = match self.snames.get(&s.name) {
            Some(n) => n,
            None => return false,
        };
        if n.flux != 0 || n.unknown || n.inst != Some(i) {
            return false;
        }
        if s.tainted_until != 0 || !s.pending_ctrl.is_empty() {
            return false;
        }
        let others = s.consumers.iter().filter(|c| Some(**c) != except).count()
            + s.mutators.iter().filter(|c| Some(**c) != except).count();
        if others != 0 {
            return false;
        }
        // a publish in flight to this topic may add messages at any moment; that does not
        // disturb the rules that use calmness (they only count definitely queued messages)
        true
    }

    fn resolve_recv(&self, r: &Recv) -> Option<u64> {
        if let Some(k) = self.id_to_mkey.get(&r.msg_id) {
            return Some(*k);
        }
        r.marker.filter(|m| self.mrec.contains_key(m))
    }

    #[allow(clippy::too_many_arguments)]
    fn deliver(&mut self, si: usize, r: &Recv, lo_idx: usize, via_stream: bool, handout_from: u64) {
        let now = self.now;
        let idx = self.idx;
        self.rep.feat.deliveries += 1;
        let mkey = match self.resolve_recv(r) {
            Some(k) => k,
            None => {
                self.v(
                    "unknown_message",
                    &["C01", "C09"],
                    format!("delivery of a message that was never published: id={} on {}", r.msg_id, self.subs[si].name),
                );
                return;
            }
        };
        if let (Some(by_id), Some(by_marker)) = (self.id_to_mkey.get(&r.msg_id), r.marker.filter(|m| self.mrec.contains_key(m))) {
            if *by_id != by_marker {
                self.v("publish_response_id_mismatch", &["C08", "C09"], format!("the message delivered with id {} is not the message for which Publish returned that id", r.msg_id));
            }
        }
        let rec = self.mrec[&mkey];
        // C09 integrity
        if rec.data_len != r.data_len || rec.data_hash != r.data_hash {
            self.v("data_mismatch", &["C09"], format!("message {} delivered with different data (len {} vs published {})", r.msg_id, r.data_len, rec.data_len));
        }
        if rec.attrs != r.attrs {
            self.v("attrs_mismatch", &["C09"], format!("message {} delivered with attributes {:?}, published {:?}", r.msg_id, short(&r.attrs), short(&rec.attrs)));
        }
        if let Some(id) = self.mkey_to_id.get(&mkey) {
            if *id != r.msg_id {
                self.v("id_mismatch", &["C09"], format!("message published as id {} delivered as id {}", id, r.msg_id));
            }
        }
        match self.pub_time_seen.get(&mkey) {
            Some(t) if *t != r.publish_time => {
                let t = *t;
                self.v("publish_time_changed", &["C09"], format!("message {} publish_time {:?} then {:?}", r.msg_id, t, r.publish_time));
            }
            None => {
                self.pub_time_seen.insert(mkey, r.publish_time);
            }
            _ => {}
        }
        // C01 negative half
        let pcall = &self.tr.calls[rec.call];
        let ptopic = match &pcall.req {
            Req::Publish { topic, .. } => topic.clone(),
            _ => String::new(),
        };
        if ptopic != self.subs[si].topic_name {
            self.v("foreign_topic", &["C01"], format!("{} received message {} published to {}", self.subs[si].name, r.msg_id, ptopic));
        }
        if let Some((ret_idx, _, _)) = &pcall.done {
            if *ret_idx < self.subs[si].ci {
                self.v("published_before_creation", &["C01", "C11"], format!("{} received message {} whose publish had completed before the subscription's creation began", self.subs[si].name, r.msg_id));
            }
        }
        // C03 ack id freshness
        if !self.subs[si].seen_ack.insert(r.ack_id.clone()) {
            self.v("ack_id_reused", &["C03"], format!("ack id {} issued twice on {}", r.ack_id, self.subs[si].name));
        }
        let d = self.subs[si].d;
        let prev = self.subs[si].msgs.get(&mkey).cloned();
        let first = self.subs[si].delivered_once.insert(mkey);
        if first && self.observed_from_start(si, mkey) {
            if let Some(id) = parse_id(&r.msg_id) {
                let hi_idx = idx;
                self.subs[si].first_deliveries.push((mkey, lo_idx, hi_idx, id));
            }
        } else {
            self.rep.feat.redeliveries += 1;
            if !rec.attrs.is_empty() || rec.data_len > 8 {
                self.rep.feat.redelivered_with_attrs_or_binary = true;
            }
        }
        // responses are observed in an order that need not be the order of the hand-outs: a
        // delivery whose call began before the previous state was observed is not ordered after it
        let unordered = self.subs[si].state_seen.get(&mkey).map(|seen| lo_idx < *seen).unwrap_or(false);
        match prev {
            Some(Ms::Leased { lo, hi: _, modified, maybe_gone, maybe_acked, ack, .. }) => {
                if now < lo && !maybe_gone && !maybe_acked && !unordered {
                    let props: &[&str] = if modified { &["C03", "C05"] } else { &["C03", "C04"] };
                    self.v(
                        "delivered_while_leased",
                        props,
                        format!(
                            "message {} handed out again on {} at t={}ns (ack {}) although its delivery (ack {}) is outstanding until at least t={}ns",
                            r.msg_id, self.subs[si].name, now, r.ack_id, ack, lo
                        ),
                    );
                } else if now < lo && !maybe_gone && maybe_acked && !unordered {
                    // an acknowledgement of that delivery is in flight (or its outcome unknown): applied
                    // or not, the message cannot be handed out again before the deadline
                    self.v(
                        "delivered_while_leased_or_acked",
                        &["C02", "C03"],
                        format!(
                            "message {} handed out again on {} at t={}ns (ack {}) although its delivery (ack {}) was outstanding until at least t={}ns and nothing but an acknowledgement of it had been sent",
                            r.msg_id, self.subs[si].name, now, r.ack_id, ack, lo
                        ),
                    );
                } else if !maybe_gone {
                    self.rep.feat.expiry_redeliveries += 1;
                }
            }
            Some(Ms::Acked) if unordered => {}
            Some(Ms::Acked) => {
                self.v("delivered_after_ack", &["C02"], format!("message {} delivered again on {} (ack {}) after its acknowledgement had returned", r.msg_id, self.subs[si].name, r.ack_id));
            }
            Some(Ms::Queued { why, .. }) => {
                if why == Why::Nack {
                    self.rep.feat.nack_redeliveries += 1;
                }
                if matches!(why, Why::Expiry | Why::ModExpiry) {
                    self.rep.feat.expiry_redeliveries += 1;
                }
            }
            _ => {}
        }
        let _ = via_stream;
        // Ack / modify requests that overlap the consumer call that produced this delivery may
        // name the (predictable) ack id it was about to be given: their effect on this lease is
        // not determined.
        let (mut lo, mut hi) = (handout_from.min(now) + d * SEC, now + d * SEC + SLACK);
        let (mut maybe_gone, mut maybe_acked) = (false, false);
        for (start, end, acks, mods) in self.subs[si].mutations.iter() {
            if *start > idx || *end < lo_idx {
                continue;
            }
            if acks.iter().any(|a| *a == r.ack_id) {
                maybe_acked = true;
            }
            for (a, n) in mods {
                if *a == r.ack_id {
                    if *n == 0 {
                        maybe_gone = true;
                        lo = lo.min(now);
                    } else if *n > 0 {
                        lo = lo.min(self.tr.events[*start].t + eff_secs(*n) * SEC);
                        hi = hi.max(now + eff_secs(*n) * SEC + SLACK);
                    }
                }
            }
        }
        if unordered {
            // which of the two hand-outs is the current one is not known
            maybe_gone = true;
            lo = lo.min(now);
        }
        self.subs[si].state_seen.insert(mkey, idx);
        if self.subs[si].lease_by_ack.insert(r.ack_id.clone(), mkey).is_none() {
            *self.subs[si].lease_count.entry(mkey).or_insert(0) += 1;
        }
        self.subs[si].msgs.insert(mkey, Ms::Leased { ack: r.ack_id.clone(), lo, hi, modified: false, maybe_gone, maybe_acked, hi_known: hi });
    }

    /// Was the message published after the creation of this subscription instance had
    /// returned? Only then has the model seen every delivery of it on the instance (what a
    /// name delivers while its create is still in flight is not attributed to an instance),
    /// so only then is "first delivery" known.
    fn observed_from_start(&self, si: usize, mkey: u64) -> bool {
        match self.mrec.get(&mkey) {
            Some(rec) => self.tr.calls[rec.call].invoke_idx > self.subs[si].cr,
            None => false,
        }
    }

    fn deliveries(&mut self, sub: &str, recvs: &[Recv], lo_idx: usize, via_stream: bool, call: CallId) {
        // no response contains the same message twice
        let mut seen = HashSet::new();
        for r in recvs {
            if !seen.insert(r.msg_id.clone()) {
                self.v("duplicate_in_response", &["C03"], format!("one response on {} contains message {} twice", sub, r.msg_id));
            }
        }
        // attribute to the instance current at the response, unless the name was in flux
        let si = match self.cur_sub(sub) {
            Some(i) => i,
            None => {
                // the instance was deleted while the response was in flight: attribute to the
                // last instance of that name if the call began before its deletion returned
                let inv = self.tr.calls[call].invoke_idx;
                match (0..self.subs.len()).rev().find(|i| self.subs[*i].name == sub && self.subs[*i].del_r.map(|d| d > inv).unwrap_or(true)) {
                    Some(i) => i,
                    None => {
                        let in_flux = self.snames.get(sub).map(|n| n.flux > 0 || n.unknown).unwrap_or(false);
                        if !recvs.is_empty() && !in_flux {
                            self.v("delivery_on_absent_subscription", &["C10", "C11"], format!("{} delivered {} message(s) although it does not exist", sub, recvs.len()));
                        }
                        return;
                    }
                }
            }
        };
        if let Some(dr) = self.subs[si].del_r {
            let inv = self.tr.calls[call].invoke_idx;
            if inv > dr && !recvs.is_empty() {
                self.v("delivery_after_delete", &["C11", "C10"], format!("{} delivered messages to a call that began after its deletion had returned", sub));
            }
            return;
        }
        self.subs[si].activity += 1;
        // same-response order of first deliveries (C08)
        let mut last_first: Option<u128> = None;
        for r in recvs {
            let is_first = self.resolve_recv(r).map(|k| !self.subs[si].delivered_once.contains(&k) && self.observed_from_start(si, k)).unwrap_or(false);
            if is_first && !self.subs[si].ever_tainted {
                if let Some(id) = parse_id(&r.msg_id) {
                    if let Some(p) = last_first {
                        if id < p {
                            self.v("first_delivery_order_in_response", &["C08"], format!("on {} a response carries first deliveries out of publish order ({} after {})", sub, id, p));
                        }
                    }
                    last_first = Some(id);
                }
            }
            // a call whose future was polled by hand (PollDrop) may have been answered by the
            // server some time before the harness took the answer
            let handout_from = if self.tr.calls[call].polls.is_some() { self.tr.calls[call].invoke_t } else { self.now };
            self.deliver(si, r, lo_idx, via_stream, handout_from);
        }
    }

    fn apply_ack_invoke(&mut self, sub: &str, ids: &[String], call: Option<CallId>) -> Vec<(usize, u64, bool, bool)> {
        let mut snap = Vec::new();
        let si = match self.cur_sub(sub) {
            Some(i) => i,
            None => return snap,
        };
        let now = self.now;
        let mut any_live = false;
        let mut any_dead = false;
        for a in ids {
            let mut found = false;
            let key = self.subs[si].lease_by_ack.get(a).cloned();
            for (k, st) in self.subs[si].msgs.range_mut(key.unwrap_or(0)..=key.unwrap_or(0)) {
                if let Ms::Leased { ack, lo, hi, maybe_acked, .. } = st {
                    if ack == a {
                        found = true;
                        let live = now < *lo;
                        let window = now >= *lo && now <= *hi;
                        if let Some(c) = call {
                            self.ack_prior.entry(c).or_default().push((si, *k, *maybe_acked));
                        }
                        *maybe_acked = true;
                        snap.push((si, *k, live, window));
                        if live {
                            any_live = true;
                        }
                    }
                }
            }
            if !found {
                any_dead = true;
            }
        }
        let outstanding = self.subs[si].msgs.values().filter(|m| matches!(m, Ms::Leased { .. })).count();
        if any_dead && outstanding > 0 {
            self.rep.feat.stale_or_unknown_ack_while_outstanding = true;
        }
        if any_live && outstanding >= 2 {
            // remembered for the "ack of one of ≥2 outstanding, then deadline passes" class
            self.rep.feat.ack_with_other_outstanding_then_deadline_passed = true;
        }
        snap
    }

    fn apply_ack_return(&mut self, snap: &[(usize, u64, bool, bool)], ids: &[String]) {
        let mut acked_now: Vec<(usize, u64)> = Vec::new();
        let idx = self.idx;
        self.apply_ack_return_inner(snap, ids, &mut acked_now);
        for (si, k) in acked_now {
            self.subs[si].state_seen.insert(k, idx);
        }
    }

    fn apply_ack_return_inner(&mut self, snap: &[(usize, u64, bool, bool)], ids: &[String], acked_now: &mut Vec<(usize, u64)>) {
        for (si, k, live, window) in snap {
            let other_lease = self.subs[*si].lease_count.get(k).copied().unwrap_or(0) >= 2;
            if let Some(st) = self.subs[*si].msgs.get_mut(k) {
                if let Ms::Leased { ack, maybe_gone, .. } = st {
                    if ids.contains(ack) {
                        if *live && !*maybe_gone {
                            *st = Ms::Acked;
                            acked_now.push((*si, *k));
                            self.rep.feat.acks_effective += 1;
                        } else if *window || *maybe_gone {
                            // acknowledged or back in the queue - or, when the message was handed
                            // out under another id as well and the order of the two hand-outs is
                            // not known, still leased under that other id
                            *st = if other_lease { Ms::Maybe } else { Ms::Limbo };
                        }
                    }
                }
            }
        }
    }

    /// (instance, mkey, definitely live at invoke)
    fn apply_modify_invoke(&mut self, sub: &str, mods: &[(String, i32)]) -> Vec<ModSnap> {
        let mut snap = Vec::new();
        let self_idx = self.idx;
        let si = match self.cur_sub(sub) {
            Some(i) => i,
            None => return snap,
        };
        let now = self.now;
        for (a, n) in mods {
            let key = match self.subs[si].lease_by_ack.get(a) {
                Some(k) => *k,
                None => continue,
            };
            for (k, st) in self.subs[si].msgs.range_mut(key..=key) {
                if let Ms::Leased { ack, lo, hi, maybe_gone, hi_known, .. } = st {
                    if ack == a {
                        if *hi != u64::MAX {
                            *hi_known = (*hi_known).max(*hi);
                        }
                        let live = now < *lo;
                        snap.push((si, *k, live, *n, *lo, ack.clone(), *hi, self_idx));
                        if *n == 0 {
                            *maybe_gone = true;
                            *lo = (*lo).min(now);
                        } else if *n > 0 {
                            let nl = now + eff_secs(*n) * SEC;
                            if nl < *lo {
                                self.rep.feat.modify_shorten_or_repeat = true;
                            }
                            *lo = (*lo).min(nl);
                            *hi = u64::MAX;
                        }
                    }
                }
            }
        }
        snap
    }

    fn apply_modify_return(&mut self, snap: &[ModSnap], t_inv: u64, ok: bool) {
        let now = self.now;
        let idx = self.idx;
        for (si, k, live, n, old_lo, snap_ack, old_hi, start_idx) in snap {
            // does another ack / modify request naming the same id overlap this one? then the
            // order in which the server applied them is not determined
            let overlapping = self.subs[*si]
                .mutations
                .iter()
                .filter(|m| m.0 <= idx && m.1 >= *start_idx && (m.2.iter().any(|a| a == snap_ack) || m.3.iter().any(|(a, _)| a == snap_ack)))
                .count()
                > 1;
            let still_pending = self.subs[*si]
                .mutations
                .iter()
                .any(|m| m.0 != *start_idx && m.0 <= idx && m.1 > idx && m.3.iter().any(|(a, n)| a == snap_ack && *n > 0));
            let tainted = self.subs[*si].tainted_until > now;
            if let Some(st) = self.subs[*si].msgs.get_mut(k) {
                if let Ms::Leased { lo, hi, modified, maybe_gone, maybe_acked, ack, hi_known } = st {
                    if ack != snap_ack {
                        // the lease named by the request has ended meanwhile
                        continue;
                    }
                    if !ok {
                        // indeterminate: keep the widened window
                        *hi_known = (*hi_known).max(now + eff_secs(*n) * SEC + SLACK);
                        if !still_pending {
                            *hi = if *hi == u64::MAX { *hi_known } else { (*hi).max(*hi_known) };
                        }
                        let _ = old_hi;
                        continue;
                    }
                    if *n == 0 {
                        if *maybe_acked {
                            *st = Ms::Limbo;
                        } else if !*live && tainted {
                            // the lease may have ended before this request (an earlier nack whose
                            // outcome is unknown, the deadline) while an abandoned consumer was
                            // around: the message may sit in a lease nobody holds
                            *st = Ms::MaybeLeased;
                        } else {
                            *st = Ms::Queued { why: Why::Nack, since: idx };
                        }
                    } else if *n > 0 {
                        if *modified {
                            self.rep.feat.modify_shorten_or_repeat = true;
                        }
                        let nl = t_inv + eff_secs(*n) * SEC;
                        let nh = now + eff_secs(*n) * SEC + SLACK;
                        if overlapping {
                            *lo = (*lo).min(*old_lo).min(nl);
                            *hi_known = (*hi_known).max(nh);
                            // while another request naming this id has not been applied yet the
                            // end of the lease stays open
                            *hi = if still_pending { u64::MAX } else { *hi_known };
                        } else {
                            *lo = if *live { nl } else { (*old_lo).min(nl) };
                            *hi = if *live { nh } else { nh.max(*hi_known) };
                            *hi_known = *hi;
                        }
                        *modified = true;
                        let _ = maybe_gone;
                    }
                }
            }
        }
    }

    fn counts(&self, si: usize) -> (usize, usize, usize, usize, usize, usize) {
        // (backlog_min, backlog_max, out_min, out_max, sum_min, sum_max)
        let now = self.now;
        let (mut bmin, mut bmax, mut omin, mut omax, mut smin, mut smax) = (0, 0, 0, 0, 0, 0);
        for st in self.subs[si].msgs.values() {
            match st {
                Ms::Maybe => {
                    bmax += 1;
                    omax += 1;
                    smax += 1;
                }
                Ms::MaybeLeased => {
                    bmax += 1;
                    omax += 1;
                    smin += 1;
                    smax += 1;
                }
                Ms::Queued { .. } => {
                    bmin += 1;
                    bmax += 1;
                    smin += 1;
                    smax += 1;
                }
                Ms::Leased { lo, maybe_gone, maybe_acked, .. } => {
                    let certain = now < *lo && !*maybe_gone && !*maybe_acked;
                    if certain {
                        omin += 1;
                        omax += 1;
                        smin += 1;
                        smax += 1;
                    } else if *maybe_acked {
                        omax += 1;
                        bmax += 1;
                        smax += 1;
                    } else {
                        omax += 1;
                        bmax += 1;
                        smin += 1;
                        smax += 1;
                    }
                }
                Ms::Acked => {}
                Ms::Limbo => {
                    bmax += 1;
                    smax += 1;
                }
            }
        }
        (bmin, bmax, omin, omax, smin, smax)
    }

    fn definitely_available(&self, si: usize) -> Vec<(u64, Why)> {
        self.subs[si]
            .msgs
            .iter()
            .filter_map(|(k, m)| match m {
                Ms::Queued { why, .. } => Some((*k, why.clone())),
                _ => None,
            })
            .collect()
    }

    fn why_props(why: &Why) -> &'static [&'static str] {
        match why {
            Why::Publish => &["C01"],
            Why::Expiry => &["C04", "C01"],
            Why::ModExpiry => &["C05", "C04"],
            Why::Nack => &["C05", "C01"],
            Why::Abandon => &["C16", "C04"],
        }
    }

    fn on_invoke(&mut self, call: CallId) {
        let c = &self.tr.calls[call];
        self.rep.feat.calls += 1;
        match c.req.clone() {
            Req::CreateTopic { name } | Req::DeleteTopic { name } => {
                let is_del = matches!(c.req, Req::DeleteTopic { .. });
                let at = self.idx;
                let n = self.tnames.entry(name.clone()).or_default();
                n.last_ctrl = at;
                if n.flux > 0 {
                    self.rep.feat.overlapping_control_on_name = true;
                }
                n.flux += 1;
                if is_del {
                    if let Some(i) = n.inst {
                        let idx = self.idx;
                        let t = &mut self.topics[i];
                        if t.del_i.is_none() {
                            t.del_i = Some(idx);
                        }
                    }
                    if !self.inflight_pubs.is_empty() {
                        self.rep.feat.create_delete_overlapping_publish = true;
                    }
                }
            }
            Req::CreateSub { name, .. } | Req::DeleteSub { name } => {
                let is_del = matches!(c.req, Req::DeleteSub { .. });
                let n = self.snames.entry(name.clone()).or_default();
                if n.flux > 0 {
                    self.rep.feat.overlapping_control_on_name = true;
                }
                n.flux += 1;
                if !self.inflight_pubs.is_empty() {
                    self.rep.feat.create_delete_overlapping_publish = true;
                }
                if is_del {
                    if let Some(i) = n.inst {
                        let idx = self.idx;
                        if self.subs[i].del_i.is_none() {
                            self.subs[i].del_i = Some(idx);
                        }
                        self.delete_target.insert(call, i);
                        let waiting = !self.subs[i].consumers.is_empty();
                        if waiting {
                            self.rep.feat.delete_with_open_stream_or_blocked_pull = true;
                        }
                    }
                }
            }
            Req::Publish { topic, .. } => {
                if !self.inflight_pubs.is_empty() {
                    self.rep.feat.overlapping_publishes = true;
                }
                self.inflight_pubs.insert(call);
                // is a consumer waiting on one of this topic's subscriptions?
                let mut waiters = 0;
                for s in self.subs.iter() {
                    if s.topic_name == topic && s.del_r.is_none() {
                        waiters += s.consumers.len();
                    }
                }
                if waiters >= 1 {
                    self.rep.feat.avail_event_with_waiter = true;
                    self.rep.feat.waiters_max = self.rep.feat.waiters_max.max(waiters);
                }
                let tn = self.tnames.get(&topic).map(|n| n.flux).unwrap_or(0);
                let mut sflux = 0;
                for s in self.subs.iter() {
                    if s.topic_name == topic {
                        sflux += self.snames.get(&s.name).map(|n| n.flux).unwrap_or(0);
                    }
                }
                if tn + sflux > 0 {
                    self.rep.feat.create_delete_overlapping_publish = true;
                }
            }
            Req::Pull { sub, max, ri } => {
                self.touch(&sub);
                if let Some(si) = self.cur_sub(&sub) {
                    let calm = self.is_calm(si, None);
                    let avail = self.definitely_available(si).len();
                    let act = self.subs[si].activity;
                    self.pull_snapshot.insert(call, (act, avail, si, calm));
                    self.subs[si].consumers.insert(call);
                    let n = self.subs[si].consumers.len();
                    self.rep.feat.max_concurrent_consumers = self.rep.feat.max_concurrent_consumers.max(n);
                    let held = self.subs[si].msgs.values().filter(|m| !matches!(m, Ms::Acked)).count();
                    if n >= 2 && held >= 2 {
                        self.rep.feat.concurrent_consumers_with_2_msgs = true;
                    }
                    if max >= 65_535 {
                        self.rep.feat.big_limit = true;
                    }
                    if max >= 1 && avail > (max as usize) {
                        self.rep.feat.backlog_over_limit = true;
                    }
                    if !ri && avail == 0 {
                        // may have to wait
                    }
                    // probes relative to deadlines
                    let now = self.now;
                    for st in self.subs[si].msgs.values() {
                        if let Ms::Leased { lo, .. } = st {
                            if now < *lo && *lo - now <= 2_000_000 {
                                self.rep.feat.probes_before_deadline += 1;
                            }
                        }
                    }
                }
            }
            Req::Ack { sub, ack_ids } => {
                let ack_ids: Vec<String> = ack_ids.iter().map(|a| norm_ack(a)).collect();
                self.touch(&sub);
                if let Some(si) = self.cur_sub(&sub) {
                    let end = c.done.as_ref().map(|d| d.0).unwrap_or(usize::MAX);
                    let start = self.idx;
                    self.subs[si].mutations.push((start, end, ack_ids.clone(), vec![]));
                }
                // ack ids are predictable counters: while leases handed to an abandoned consumer
                // may exist, an id nobody was given can still name one of them
                if let Some(si) = self.cur_sub(&sub) {
                    if self.subs[si].tainted_until != 0 {
                        let known: Vec<bool> = ack_ids.iter().map(|a| self.subs[si].lease_by_ack.contains_key(a)).collect();
                        if ack_ids.iter().zip(known.iter()).any(|(a, k)| !*k && a.parse::<u64>().is_ok()) {
                            for (_, st) in self.subs[si].msgs.iter_mut() {
                                if matches!(st, Ms::MaybeLeased) {
                                    *st = Ms::Maybe;
                                }
                            }
                        }
                    }
                }
                let snap = self.apply_ack_invoke(&sub, &ack_ids, Some(call));
                self.ack_snapshot.insert(call, snap);
                if let Some(si) = self.cur_sub(&sub) {
                    self.subs[si].mutators.insert(call);
                }
            }
            Req::Modify { sub, ack_ids, secs } => {
                let raw_ids = ack_ids.clone();
                let ack_ids: Vec<String> = ack_ids.iter().map(|a| norm_ack(a)).collect();
                self.touch(&sub);
                if let Some(si) = self.cur_sub(&sub) {
                    let end = c.done.as_ref().map(|d| d.0).unwrap_or(usize::MAX);
                    let start = self.idx;
                    if secs >= 0 {
                        self.subs[si].mutations.push((start, end, vec![], ack_ids.iter().map(|a| (a.clone(), secs)).collect()));
                    }
                }
                let all_valid = raw_ids.iter().all(|a| valid_ack_id(a));
                let mut classes = HashSet::new();
                if let Some(si) = self.cur_sub(&sub) {
                    for a in &ack_ids {
                        let cls = if !valid_ack_id(a) {
                            3
                        } else if self.subs[si].lease_by_ack.get(a).and_then(|k| self.subs[si].msgs.get(k)).map(|m| matches!(m, Ms::Leased { ack, .. } if ack == a)).unwrap_or(false) {
                            0
                        } else if self.subs[si].seen_ack.contains(a) {
                            1
                        } else {
                            2
                        };
                        classes.insert(cls);
                    }
                    self.subs[si].mutators.insert(call);
                }
                if classes.len() >= 2 {
                    self.rep.feat.modify_mixed_classes = true;
                }
                if secs > 0 && all_valid {
                    // an id nobody was given may extend the lease of an abandoned consumer
                    if let Some(si) = self.cur_sub(&sub) {
                        if self.subs[si].tainted_until != 0 && ack_ids.iter().any(|a| !self.subs[si].lease_by_ack.contains_key(a)) {
                            let until = self.now + eff_secs(secs) * SEC + SLACK + 1_000_000;
                            self.subs[si].tainted_until = self.subs[si].tainted_until.max(until);
                        }
                    }
                }
                if secs >= 0 && all_valid {
                    let mods: Vec<(String, i32)> = ack_ids.iter().map(|a| (a.clone(), secs)).collect();
                    let snap = self.apply_modify_invoke(&sub, &mods);
                    self.mod_snapshot_insert(call, snap);
                }
            }
            Req::StreamOpen { sub, max_out } => {
                self.touch(&sub);
                let si = self.cur_sub(&sub);
                if let Some(si) = si {
                    self.subs[si].consumers.insert(call);
                    let n = self.subs[si].consumers.len();
                    self.rep.feat.max_concurrent_consumers = self.rep.feat.max_concurrent_consumers.max(n);
                }
                let idx = self.idx;
                self.streams.insert(
                    call,
                    StreamState { sub_inst: si, sub, max_out, open: false, ended: None, aborted: false, last_msg_idx: idx, ctrl_since_qp: false, invalid_ctrl_sent: false, close_sent: false },
                );
            }
            _ => {}
        }
    }

    fn mod_snapshot_insert(&mut self, call: CallId, snap: Vec<ModSnap>) {
        self.mod_snapshots.insert(call, snap);
    }
}

// second impl block: response handling and the driver
impl<'a> Model<'a> {
    fn release_call(&mut self, call: CallId) {
        for s in self.subs.iter_mut() {
            s.consumers.remove(&call);
            s.mutators.remove(&call);
        }
    }

    fn expected_dl(dl: i32) -> i32 {
        if dl <= 10 {
            10
        } else {
            dl
        }
    }

    fn on_return(&mut self, call: CallId) {
        let c = self.tr.calls[call].clone();
        let (_, _, out) = c.done.clone().unwrap();
        let code = out.code();
        let idx = self.idx;
        // C18 at the RPC level: a name the server accepts and answers for must be the name it
        // echoes, unless both spellings denote the same (project, id) under the reference grammar
        {
            let (asked, echoed, seg): (Option<&String>, Option<&String>, &str) = match (&c.req, &out) {
                (Req::CreateTopic { name }, Outcome::Topic { name: e }) | (Req::GetTopic { name }, Outcome::Topic { name: e }) => (Some(name), Some(e), "topics"),
                (Req::CreateSub { name, .. }, Outcome::Sub(v)) | (Req::GetSub { name }, Outcome::Sub(v)) => (Some(name), Some(&v.name), "subscriptions"),
                _ => (None, None, ""),
            };
            if let (Some(a), Some(e)) = (asked, echoed) {
                if a != e {
                    let pa = crate::pure::ref_parse(a, seg);
                    let pe = crate::pure::ref_parse(e, seg);
                    if pa.is_none() {
                        self.v("accepted_outside_grammar", &["C18", "C17"], format!("request naming {:?} was accepted (echoed {:?}) although the name is outside the grammar", a, e));
                    } else if pa != pe {
                        self.v("names_not_injective", &["C18"], format!("a request naming {:?} was answered with the resource {:?}: two names that differ in project or ID denote the same resource", a, e));
                    }
                }
            }
        }
        // ... and a request without an echo that is answered OK must have named something the
        // grammar accepts
        {
            let named: Option<(&String, &str)> = match &c.req {
                Req::Publish { topic, .. } | Req::ListTopicSubs { topic, .. } => Some((topic, "topics")),
                Req::DeleteTopic { name } => Some((name, "topics")),
                Req::Pull { sub, .. } | Req::Ack { sub, .. } | Req::Modify { sub, .. } => Some((sub, "subscriptions")),
                Req::DeleteSub { name } => Some((name, "subscriptions")),
                _ => None,
            };
            if let Some((n, seg)) = named {
                if code == 0 && crate::pure::ref_parse(n, seg).is_none() {
                    self.v("accepted_outside_grammar", &["C18", "C17"], format!("{} naming {:?} was answered OK although the name is outside the grammar", req_kind(&c.req), n));
                }
            }
        }
        // a topic that exists, with no create or delete of its name in flight, serves its requests
        {
            let topic: Option<&String> = match &c.req {
                Req::GetTopic { name } => Some(name),
                Req::Publish { topic, .. } | Req::ListTopicSubs { topic, .. } => Some(topic),
                _ => None,
            };
            if let Some(tname) = topic {
                if code != 0 && code != 3 && code != 5 && code != 8 && code != 11 {
                    let live = self
                        .tnames
                        .get(tname)
                        .filter(|n| n.flux == 0 && !n.unknown && n.last_ctrl < c.invoke_idx)
                        .and_then(|n| n.inst)
                        .map(|ti| self.topics[ti].cr < c.invoke_idx && self.topics[ti].del_i.is_none())
                        .unwrap_or(false);
                    if live {
                        self.v("live_topic_request_failed", &["C11", "C07"], format!("{} on the live topic {} was answered with code {}", req_kind(&c.req), tname, code));
                    }
                }
            }
        }
        match &c.req {
            Req::GetTopic { name } => {
                if code == 0 {
                    // found by a request that was made after the instance's creation had returned
                    let ti = self.tnames.get(name).and_then(|n| n.inst).filter(|ti| self.topics[*ti].cr < c.invoke_idx);
                    if let Some(ti) = ti {
                        self.topics[ti].seen_alive = Some(idx);
                        self.half_deleted_check(ti);
                    }
                }
            }
            Req::CreateTopic { name } => {
                let n = self.tnames.entry(name.clone()).or_default();
                n.flux = n.flux.saturating_sub(1);
                n.last_ctrl = idx;
                match &out {
                    Outcome::Topic { name: echoed } => {
                        if echoed != name {
                            self.v("echo_mismatch", &["C18", "C10"], format!("CreateTopic({}) echoed {}", name, echoed));
                        }
                        self.topics.push(TopicInst { name: name.clone(), ci: c.invoke_idx, cr: idx, del_i: None, del_r: None, seen_alive: None, reported_deleted: None });
                        let id = self.topics.len() - 1;
                        let same = self.topics.iter().filter(|t| t.name == *name).count();
                        self.rep.feat.topic_instances_same_name = self.rep.feat.topic_instances_same_name.max(same);
                        if same >= 2 {
                            // survivors of an earlier instance?
                            let survivor = self.subs.iter().any(|s| s.topic_name == *name && s.del_r.is_none() && s.topic_inst.map(|t| t != id).unwrap_or(false));
                            if survivor {
                                self.rep.feat.delete_then_recreate_with_survivor = true;
                            }
                        }
                        let raced = self.tr.calls.iter().any(|o| matches!(&o.req, Req::DeleteTopic { name: dn } if dn == name) && o.invoke_idx > c.invoke_idx && o.invoke_idx < idx);
                        let n = self.tnames.get_mut(name).unwrap();
                        n.inst = Some(id);
                        n.unknown = raced;
                        if raced {
                            self.topics[id].del_i = Some(c.invoke_idx);
                        }
                    }
                    _ => {
                        if code != 6 && code != 3 {
                            self.tnames.get_mut(name).unwrap().unknown = true;
                        }
                    }
                }
            }
            Req::DeleteTopic { name } => {
                let n = self.tnames.entry(name.clone()).or_default();
                n.flux = n.flux.saturating_sub(1);
                n.last_ctrl = idx;
                if code == 0 {
                    if let Some(i) = n.inst {
                        self.topics[i].del_r = Some(idx);
                    }
                    n.inst = None;
                    n.unknown = false;
                } else if code != 5 && code != 3 {
                    n.unknown = true;
                }
            }
            Req::CreateSub { name, topic, dl, push } => {
                let n = self.snames.entry(name.clone()).or_default();
                n.flux = n.flux.saturating_sub(1);
                match &out {
                    Outcome::Sub(view) => {
                        let tn = self.tnames.get(topic);
                        let tinst = match tn {
                            Some(t) if t.flux == 0 && !t.unknown => match t.inst {
                                Some(i) if self.topics[i].cr < c.invoke_idx => Some(i),
                                _ => None,
                            },
                            _ => None,
                        };
                        self.subs.push(SubInst {
                            name: name.clone(),
                            topic_name: topic.clone(),
                            topic_inst: tinst,
                            d: Self::expected_dl(*dl) as u64,
                            ci: c.invoke_idx,
                            cr: idx,
                            del_i: None,
                            del_r: None,
                            msgs: BTreeMap::new(),
                            seen_ack: HashSet::new(),
                            tainted_until: 0,
                            ever_tainted: false,
                            activity: 0,
                            consumers: HashSet::new(),
                            mutators: HashSet::new(),
                            pending_ctrl: Vec::new(),
                            first_deliveries: Vec::new(),
                            consumer_abort_since_qp: false,
                            lease_count: HashMap::new(),
                            delivered_once: HashSet::new(),
                            view: Some(view.clone()),
                            req_push: push.clone(),
                            req_dl: *dl,
                            c12_checked: false,
                            state_seen: HashMap::new(),
                            lease_by_ack: HashMap::new(),
                            obligations: HashSet::new(),
                            mutations: Vec::new(),
                        });
                        let id = self.subs.len() - 1;
                        // a delete of the same name that began while this create was in flight may
                        // already have removed what this call created
                        let raced = self.tr.calls.iter().any(|o| matches!(&o.req, Req::DeleteSub { name: dn } if dn == name) && o.invoke_idx > c.invoke_idx && o.invoke_idx < idx);
                        // the forced case: an OK delete that found no known instance when it was made,
                        // returned inside this create's interval, and overlapped no other create of
                        // the name, removed what this call created
                        let by: Option<(usize, usize)> = self
                            .tr
                            .calls
                            .iter()
                            .filter(|o| matches!(&o.req, Req::DeleteSub { name: dn } if dn == name))
                            .filter(|o| o.done.as_ref().map(|d| d.0 > c.invoke_idx && d.0 < idx && d.2.code() == 0).unwrap_or(false))
                            .filter(|o| !self.delete_target.contains_key(&o.id))
                            .filter(|o| {
                                let (di, dr) = (o.invoke_idx, o.done.as_ref().unwrap().0);
                                // (other creates that were answered with an error created nothing)
                                !self.tr.calls.iter().any(|x| {
                                    x.id != c.id
                                        && matches!(&x.req, Req::CreateSub { name: xn, .. } if xn == name)
                                        && x.invoke_idx < dr
                                        && x.done.as_ref().map(|d| d.0 > di && d.2.code() == 0).unwrap_or(true)
                                })
                            })
                            .map(|o| (o.invoke_idx, o.done.as_ref().unwrap().0))
                            .next();
                        let prev = self.snames.get(name).and_then(|n| n.inst).filter(|p| self.subs[*p].del_r.is_none());
                        let n = self.snames.get_mut(name).unwrap();
                        if let Some((di, dr)) = by {
                            // created and deleted again before this response: the name is what
                            // the later calls made of it
                            self.subs[id].del_i = Some(di);
                            self.subs[id].del_r = Some(dr);
                            if prev.is_none() {
                                n.inst = None;
                            }
                        } else if let Some(p) = prev.filter(|p| self.subs[*p].del_i.is_none()) {
                            // two successful creates of one name; which of the two instances the
                            // racing delete removed is not determined by the responses
                            n.inst = Some(id);
                            n.unknown = true;
                            self.subs[id].del_i = Some(c.invoke_idx);
                            if self.subs[p].del_i.is_none() {
                                self.subs[p].del_i = Some(c.invoke_idx);
                            }
                        } else {
                            n.inst = Some(id);
                            n.unknown = raced;
                            if raced {
                                self.subs[id].del_i = Some(c.invoke_idx);
                            }
                        }
                        self.check_view(id, view, "CreateSubscription", c.invoke_idx);
                        // publishes that overlapped this create (also ones that have returned
                        // meanwhile) may or may not have reached the new subscription
                        let overlapping: Vec<Vec<u64>> = self
                            .tr
                            .calls
                            .iter()
                            .filter_map(|p| match &p.req {
                                Req::Publish { topic: pt, mkeys } if pt == topic && p.invoke_idx < idx && p.done.as_ref().map(|d| d.0 > c.invoke_idx).unwrap_or(true) => Some(mkeys.clone()),
                                _ => None,
                            })
                            .collect();
                        for mkeys in overlapping {
                            for k in mkeys {
                                self.subs[id].msgs.entry(k).or_insert(Ms::Maybe);
                            }
                        }
                    }
                    _ => {
                        if code != 6 && code != 3 && code != 5 {
                            self.snames.get_mut(name).unwrap().unknown = true;
                        }
                    }
                }
            }
            Req::DeleteSub { name } => {
                let n = self.snames.entry(name.clone()).or_default();
                n.flux = n.flux.saturating_sub(1);
                if code == 0 {
                    // the instance this delete was aimed at; a create of the same name that
                    // completed while the delete was in flight made a *new* instance, which
                    // this delete (linearized before that create) did not remove
                    let target = self.delete_target.get(&call).cloned();
                    let cur = n.inst;
                    match (target, cur) {
                        (Some(tg), Some(cu)) if tg != cu && self.subs[cu].ci > c.invoke_idx => {
                            self.subs[tg].del_r = Some(idx);
                        }
                        (None, Some(cu)) if self.subs[cu].ci > c.invoke_idx => {
                            // no instance was known when this delete was made, yet it succeeded:
                            // what it removed is the instance created while it was in flight
                            // (unless the state of the name was not known to begin with)
                            if !n.unknown {
                                if self.subs[cu].del_i.is_none() {
                                    self.subs[cu].del_i = Some(c.invoke_idx);
                                }
                                self.subs[cu].del_r = Some(idx);
                                n.inst = None;
                            }
                        }
                        _ => {
                            if let Some(i) = target.or(cur) {
                                self.subs[i].del_r = Some(idx);
                            }
                            // a create of the name that was abandoned (or is still in flight) after
                            // this delete was made may have taken effect after it: then the name's
                            // state stays undetermined
                            let later_create = self.tr.calls.iter().any(|o| {
                                matches!(&o.req, Req::CreateSub { name: cn, .. } if cn == name) && o.invoke_idx < idx && (o.aborted.map(|a| a.0 > c.invoke_idx).unwrap_or(false) || (o.done.is_none() && o.aborted.is_none()) || o.done.as_ref().map(|d| d.0 > idx).unwrap_or(false))
                            });
                            let n = self.snames.get_mut(name).unwrap();
                            n.inst = None;
                            n.unknown = later_create;
                        }
                    }
                } else if code != 5 && code != 3 {
                    n.unknown = true;
                }
            }
            Req::GetSub { name } => {
                if code == 5 {
                    if let Some(n) = self.snames.get_mut(name) {
                        if n.flux == 0 && n.unknown {
                            n.unknown = false;
                            n.inst = None;
                        }
                    }
                }
                if let Outcome::Sub(view) = &out {
                    if let Some(si) = self.sub_definite(name) {
                        if self.subs[si].cr < c.invoke_idx {
                            self.check_view(si, view, "GetSubscription", c.invoke_idx);
                        }
                    }
                }
            }
            Req::ListSubs { .. } => {
                if let Outcome::SubList { subs, .. } = &out {
                    for view in subs.clone() {
                        if let Some(si) = self.sub_definite(&view.name) {
                            if self.subs[si].cr < c.invoke_idx {
                                self.check_view(si, &view, "ListSubscriptions", c.invoke_idx);
                            }
                        }
                    }
                }
            }
            Req::ListTopicSubs { topic, token, size } => {
                if let Outcome::NameList { names, next } = &out {
                    if token.is_empty() && next.is_empty() && (*size == 0 && names.len() < 20 || *size as usize > names.len()) {
                        self.check_topic_list(topic, names, c.invoke_idx);
                    }
                }
            }
            Req::Publish { topic, mkeys } => {
                self.inflight_pubs.remove(&call);
                match &out {
                    Outcome::PublishIds(ids) => {
                        self.rep.feat.publishes_ok += 1;
                        self.on_publish_ok(&c, topic, mkeys, ids);
                    }
                    _ => {
                        // NOT_FOUND / INVALID_ARGUMENT: nothing was accepted. Any other status leaves it open.
                        if code != 5 && code != 3 {
                            let topics = &self.topics;
                            for s in self.subs.iter_mut() {
                                let detached = s.topic_inst.map(|t| topics[t].del_r.map(|d| d < c.invoke_idx).unwrap_or(false)).unwrap_or(false);
                                if s.topic_name == *topic && s.del_r.is_none() && !detached {
                                    for k in mkeys {
                                        s.msgs.entry(*k).or_insert(Ms::Maybe);
                                    }
                                }
                            }
                        }
                    }
                }
            }
            Req::Pull { sub, max, ri } => {
                let snap = self.pull_snapshot.remove(&call);
                match &out {
                    Outcome::Pulled(recvs) => {
                        // C15 size limit
                        if *max >= 1 && recvs.len() > *max as usize {
                            self.v("pull_over_limit", &["C15"], format!("Pull(max_messages={}) on {} returned {} messages", max, sub, recvs.len()));
                        }
                        let waited = self.now.saturating_sub(c.invoke_t);
                        if recvs.is_empty() && !*ri {
                            // the incarnation(s) of the name the call can have waited on: created before
                            // the call, and not yet gone (delete returned) when the call was made
                            let mine = |s: &SubInst| s.name == *sub && s.ci < c.invoke_idx && s.del_r.map(|d| d > c.invoke_idx).unwrap_or(true);
                            let deleted = self.subs.iter().any(|s| mine(s) && s.del_i.map(|d| d < idx).unwrap_or(false));
                            if waited < 300 * SEC && !deleted {
                                self.v("empty_blocking_pull", &["C15"], format!("blocking Pull on {} returned an empty response after {} ns (< 300 s)", sub, waited));
                            }
                            if deleted {
                                // the subscription it waited on is gone: an OK(empty) after the limit means it kept waiting
                                let dr = self.subs.iter().filter(|s| mine(s)).filter_map(|s| s.del_r).min();
                                if let Some(dr) = dr {
                                    if dr < idx && waited >= 300 * SEC {
                                        let dt = self.tr.events[dr].t;
                                        if self.now > dt + SEC {
                                            self.v("blocked_pull_outlived_delete", &["C12"], format!("Pull blocked on {} kept waiting after the subscription's deletion had returned and ended OK(empty) at its time limit", sub));
                                        }
                                    }
                                }
                            }
                        }
                        if waited > 300 * SEC + 2_000_000 {
                            self.v("pull_over_time_limit", &["C07", "C15"], format!("Pull on {} returned after {} ns", sub, waited));
                        }
                        if waited > 0 && !recvs.is_empty() && !*ri {
                            self.rep.feat.blocking_pull_waited = true;
                        }
                        self.deliveries(sub, recvs, c.invoke_idx, false, call);
                        // availability: a quiet non-blocking pull must see what is definitely queued
                        if let (Some((act, avail, si, calm)), true) = (snap, *ri) {
                            if calm && self.is_calm(si, Some(call)) && self.subs[si].activity == act + 1 && avail >= 1 {
                                // (activity was bumped once by this response)
                                if recvs.is_empty() {
                                    let (k, why) = self.definitely_available(si).into_iter().next().map(|(k, w)| (k, w)).unwrap_or((0, Why::Publish));
                                    let id = self.mkey_to_id.get(&k).cloned().unwrap_or_default();
                                    self.v(
                                        "available_not_delivered",
                                        Self::why_props(&why),
                                        format!("Pull(return_immediately) on quiet {} returned nothing at t={}ns although message {} is available ({:?})", sub, self.now, id, why),
                                    );
                                } else {
                                    self.rep.feat.probes_after_deadline += recvs.len().min(avail);
                                }
                            }
                        }
                    }
                    _ => {}
                }
                self.release_call(call);
            }
            Req::Ack { ack_ids, sub } => {
                let snap = self.ack_snapshot.remove(&call).unwrap_or_default();
                if code == 0 {
                    if ack_ids.iter().any(|a| !valid_ack_id(a)) {
                        self.v("malformed_ack_accepted", &["C17"], format!("Acknowledge on {} with a malformed ack id returned OK", sub));
                    }
                    let normed: Vec<String> = ack_ids.iter().map(|a| norm_ack(a)).collect();
                    self.apply_ack_return(&snap, &normed);
                } else if code == 3 {
                    // rejected: nothing may have been applied - by this request; another
                    // acknowledgement of the same delivery may still be on its way (a control
                    // message not yet processed, an overlapping Acknowledge)
                    for (si, k, _, _) in &snap {
                        let other_in_flight = match self.subs[*si].msgs.get(k) {
                            Some(Ms::Leased { ack, .. }) => {
                                self.subs[*si].pending_ctrl.iter().any(|p| p.2.contains(ack)) || self.subs[*si].mutations.iter().any(|m| m.1 > idx && m.2.contains(ack))
                            }
                            _ => false,
                        };
                        if other_in_flight {
                            continue;
                        }
                        // back to what was known before this request was made
                        let prior = self.ack_prior.get(&call).and_then(|v| v.iter().find(|p| p.0 == *si && p.1 == *k).map(|p| p.2)).unwrap_or(false);
                        if let Some(Ms::Leased { maybe_acked, .. }) = self.subs[*si].msgs.get_mut(k) {
                            *maybe_acked = prior;
                        }
                    }
                } else {
                    for (si, k, _, _) in &snap {
                        if let Some(st) = self.subs[*si].msgs.get_mut(k) {
                            if matches!(st, Ms::Leased { .. }) && code != 5 {
                                // indeterminate
                            } else if let Ms::Leased { maybe_acked, .. } = st {
                                *maybe_acked = false;
                            }
                        }
                    }
                }
                self.release_call(call);
                self.touch(sub);
            }
            Req::Modify { sub, ack_ids, secs } => {
                let snap = self.mod_snapshots.remove(&call).unwrap_or_default();
                let must_reject = (*secs < 0 && !ack_ids.is_empty()) || ack_ids.iter().any(|a| !valid_ack_id(a));
                if must_reject {
                    self.rep.feat.modify_rejected += 1;
                    if code != 3 {
                        let exists = self.sub_definite(sub).is_some();
                        if code == 0 || exists {
                            self.v("modify_not_rejected", &["C05", "C17"], format!("ModifyAckDeadline(seconds={}, ack_ids={:?}) on {} answered code {} instead of INVALID_ARGUMENT", secs, short_ids(ack_ids), sub, code));
                        }
                    }
                } else {
                    self.apply_modify_return(&snap, c.invoke_t, code == 0);
                }
                self.release_call(call);
                self.touch(sub);
            }
            Req::StreamOpen { sub, max_out } => {
                if let Some(st) = self.streams.get_mut(&call) {
                    if code == 0 {
                        st.open = true;
                    } else {
                        st.ended = Some(Some(code));
                        if !(0..=65_535i64).contains(max_out) && code != 3 {
                            let exists = self.sub_definite(sub).is_some();
                            if exists {
                                self.v("stream_limit_not_rejected", &["C17"], format!("StreamingPull(max_outstanding_messages={}) on {} answered code {}", max_out, sub, code));
                            }
                        }
                    }
                }
                if code != 0 {
                    self.release_call(call);
                }
            }
            _ => {}
        }
    }

    fn check_view(&mut self, si: usize, view: &SubView, what: &str, read_from: usize) {
        let s = &self.subs[si];
        let mut problems = Vec::new();
        if view.name != s.name {
            problems.push(format!("name {} != {}", view.name, s.name));
        }
        let exp_dl = Self::expected_dl(s.req_dl);
        if view.dl != exp_dl {
            problems.push(format!("ack_deadline_seconds {} != {}", view.dl, exp_dl));
        }
        match (&view.push, &s.req_push) {
            (None, None) => {}
            (Some(v), Some(r)) => {
                if v.endpoint.trim() != r.endpoint.trim() || v.attrs != r.attrs || v.oidc != r.oidc {
                    problems.push(format!("push config {:?} != requested {:?}", v, r));
                }
            }
            (a, b) => problems.push(format!("push config {:?} != requested {:?}", a, b)),
        }
        // topic
        let mut topic_problem = None;
        if view.topic == "_deleted_topic_" {
            if let Some(ti) = s.topic_inst {
                let at = self.idx;
                self.topics[ti].reported_deleted = Some(at);
                self.half_deleted_check(ti);
            }
        }
        let s = &self.subs[si];
        if let Some(ti) = s.topic_inst {
            let t = &self.topics[ti];
            let tn = self.tnames.get(&t.name);
            let quiet = tn.map(|n| n.flux == 0 && !n.unknown).unwrap_or(false);
            if quiet {
                if t.del_r.map(|d| d < read_from).unwrap_or(false) {
                    if view.topic != "_deleted_topic_" {
                        topic_problem = Some(format!("topic reported as {} although it was deleted", view.topic));
                    }
                } else if t.del_i.is_none() && view.topic != t.name {
                    topic_problem = Some(format!("topic {} != {}", view.topic, t.name));
                }
            }
        }
        if !problems.is_empty() {
            let d = format!("{} of {}: {}", what, self.subs[si].name, problems.join("; "));
            self.v("subscription_view", &["C10"], d);
        }
        if let Some(p) = topic_problem {
            let d = format!("{} of {}: {}", what, self.subs[si].name, p);
            self.v("subscription_topic_view", &["C11", "C10"], d);
        }
    }

    /// A topic whose subscriptions say it was deleted cannot be looked up, and vice versa: once
    /// every create / delete of the name has ended (returned or been abandoned) and a quiescent
    /// point has passed, the two observations must agree.
    fn half_deleted_check(&mut self, ti: usize) {
        let t = &self.topics[ti];
        let (a, b) = match (t.reported_deleted, t.seen_alive) {
            (Some(a), Some(b)) => (a, b),
            _ => return,
        };
        let n = match self.tnames.get(&t.name) {
            Some(n) if n.flux == 0 && n.inst == Some(ti) => n,
            _ => return,
        };
        if n.last_ctrl < self.last_qp_idx && self.last_qp_idx < a.min(b) {
            let name = t.name.clone();
            self.v("topic_half_deleted", &["C11", "C16"], format!("the subscriptions of {} report their topic as deleted while GetTopic still finds it, with no create or delete of the name in flight", name));
        }
    }

    fn check_topic_list(&mut self, topic: &str, names: &[String], invoke_idx: usize) {
        let tn = match self.tnames.get(topic) {
            Some(n) if n.flux == 0 && !n.unknown => n,
            _ => return,
        };
        let ti = match tn.inst {
            Some(i) => i,
            None => return,
        };
        if self.topics[ti].cr > invoke_idx {
            return;
        }
        // every subscription name that ever referred to this topic name must be settled
        let mut expected: Vec<(usize, String)> = Vec::new();
        for (i, s) in self.subs.iter().enumerate() {
            if s.topic_name != topic {
                continue;
            }
            let sn = match self.snames.get(&s.name) {
                Some(n) => n,
                None => return,
            };
            if sn.flux != 0 || sn.unknown {
                return;
            }
            if s.del_r.is_some() {
                continue;
            }
            if s.del_i.is_some() {
                return;
            }
            match s.topic_inst {
                None => return,
                Some(t) if t == ti => expected.push((s.cr, self.subs[i].name.clone())),
                _ => {}
            }
        }
        // names with unknown state that might be attached
        for (name, n) in self.snames.iter() {
            if (n.unknown || n.flux != 0) && self.tr.calls.iter().any(|c| matches!(&c.req, Req::CreateSub { name: sn, topic: t, .. } if sn == name && t == topic)) {
                return;
            }
        }
        expected.sort();
        let spans: Vec<(usize, usize, String)> = expected.iter().map(|e| (self.subs.iter().find(|s| s.name == e.1 && s.cr == e.0).map(|s| s.ci).unwrap_or(e.0), e.0, e.1.clone())).collect();
        let exp: Vec<String> = expected.into_iter().map(|e| e.1).collect();
        if !same_order_modulo_overlap(&spans, names) {
            self.v(
                "topic_subscription_list",
                &["C11", "C13"],
                format!("ListTopicSubscriptions({}) = {:?}, live subscriptions created on it = {:?}", topic, names, exp),
            );
        }
    }

    fn on_publish_ok(&mut self, c: &CallInfo, topic: &str, mkeys: &[u64], ids: &[String]) {
        let idx = self.idx;
        if ids.len() != mkeys.len() {
            self.v("publish_id_count", &["C08"], format!("Publish of {} messages returned {} ids", mkeys.len(), ids.len()));
        }
        let mut prev: Option<u128> = None;
        for (k, id) in mkeys.iter().zip(ids.iter()) {
            match parse_id(id) {
                Some(n) => {
                    if let Some(p) = prev {
                        if n <= p {
                            self.v("publish_ids_not_increasing", &["C08"], format!("Publish returned ids out of order: {} after {}", n, p));
                        }
                    }
                    prev = Some(n);
                }
                None => {}
            }
            if let Some(other) = self.seen_pub_ids.get(id) {
                if other != k {
                    self.v("duplicate_message_id", &["C09", "C08"], format!("message id {} returned for two different messages", id));
                }
            }
            self.seen_pub_ids.insert(id.clone(), *k);
            self.mkey_to_id.insert(*k, id.clone());
        }
        // which topic instance?
        let tn = self.tnames.get(topic);
        let x = match tn {
            Some(n) if n.flux == 0 && !n.unknown => match n.inst {
                Some(i) if self.topics[i].cr < c.invoke_idx && self.topics[i].del_i.is_none() => Some(i),
                _ => None,
            },
            _ => None,
        };
        let mut attached = 0;
        for si in 0..self.subs.len() {
            let s = &self.subs[si];
            if s.topic_name != topic || s.del_r.map(|d| d < c.invoke_idx).unwrap_or(false) {
                continue;
            }
            let sn_quiet = self.snames.get(&s.name).map(|n| n.flux == 0 && !n.unknown).unwrap_or(false);
            let throughout = x.is_some() && s.topic_inst == x && s.cr < c.invoke_idx && s.del_i.is_none() && sn_quiet;
            let other_instance = x.is_some() && s.topic_inst.is_some() && s.topic_inst != x;
            if throughout {
                attached += 1;
                for k in mkeys {
                    self.subs[si].obligations.insert(*k);
                    let untainted = self.subs[si].tainted_until == 0;
                    let e = self.subs[si].msgs.entry(*k).or_insert(Ms::Queued { why: Why::Publish, since: idx });
                    if matches!(e, Ms::Maybe) {
                        *e = if untainted { Ms::Queued { why: Why::Publish, since: idx } } else { Ms::MaybeLeased };
                    }
                }
            } else if !other_instance {
                for k in mkeys {
                    self.subs[si].msgs.entry(*k).or_insert(Ms::Maybe);
                }
            }
        }
        self.rep.feat.max_subs_on_topic_at_publish = self.rep.feat.max_subs_on_topic_at_publish.max(attached);
    }

    fn on_abort(&mut self, call: CallId) {
        let c = self.tr.calls[call].clone();
        let now = self.now;
        if c.polls.map(|p| p >= 1).unwrap_or(false) {
            self.rep.feat.aborted_inside_handler += 1;
        }
        match &c.req {
            Req::CreateTopic { name } | Req::DeleteTopic { name } => {
                let at = self.idx;
                let n = self.tnames.entry(name.clone()).or_default();
                n.flux = n.flux.saturating_sub(1);
                n.unknown = true;
                n.last_ctrl = at;
            }
            Req::CreateSub { name, .. } | Req::DeleteSub { name } => {
                let n = self.snames.entry(name.clone()).or_default();
                n.flux = n.flux.saturating_sub(1);
                n.unknown = true;
            }
            Req::Publish { topic, mkeys } => {
                self.inflight_pubs.remove(&call);
                for s in self.subs.iter_mut() {
                    if s.topic_name == *topic && s.del_r.is_none() {
                        for k in mkeys {
                            s.msgs.entry(*k).or_insert(Ms::Maybe);
                        }
                    }
                }
            }
            Req::Pull { sub, .. } | Req::StreamOpen { sub, .. } => {
                self.rep.feat.abort_of_consumer = true;
                self.pull_snapshot.remove(&call);
                if let Some(si) = self.cur_sub(sub) {
                    let d = self.subs[si].d;
                    let s = &mut self.subs[si];
                    s.tainted_until = s.tainted_until.max(now + d * SEC + SLACK + 1_000_000);
                    s.ever_tainted = true;
                    s.consumer_abort_since_qp = true;
                    // an acknowledgement overlapping the abandoned call may have named (by its
                    // predictable id) the lease that call was given
                    let racing_ack = s.mutations.iter().any(|m| m.1 > c.invoke_idx && !m.2.is_empty());
                    for (_, st) in s.msgs.iter_mut() {
                        if matches!(st, Ms::Queued { .. }) {
                            *st = if racing_ack { Ms::Maybe } else { Ms::MaybeLeased };
                        } else if racing_ack && matches!(st, Ms::MaybeLeased) {
                            // possibly in the backlog still (only "maybe" taken by an earlier
                            // abandoned call): this abandoned call may take it, and the racing
                            // acknowledgement may name the lease it is given
                            *st = Ms::Maybe;
                        }
                    }
                }
                if let Some(st) = self.streams.get_mut(&call) {
                    st.aborted = true;
                    st.open = false;
                }
                // messages of publishes still in flight may be handed to the abandoned consumer too
                let inflight: Vec<CallId> = self.inflight_pubs.iter().cloned().collect();
                if let Some(si) = self.cur_sub(sub) {
                    for p in inflight {
                        if let Req::Publish { topic, mkeys } = &self.tr.calls[p].req {
                            if *topic == self.subs[si].topic_name {
                                for k in mkeys {
                                    self.subs[si].msgs.entry(*k).or_insert(Ms::Maybe);
                                }
                            }
                        }
                    }
                }
            }
            Req::Ack { .. } => {
                self.ack_snapshot.remove(&call);
            }
            Req::Modify { .. } => {
                let snap = self.mod_snapshots.remove(&call).unwrap_or_default();
                self.apply_modify_return(&snap, c.invoke_t, false);
            }
            _ => {}
        }
        self.release_call(call);
    }

    fn on_stream_send(&mut self, call: CallId, acks: &[String], mods: &[(String, i32)]) {
        self.rep.feat.stream_ctrl_msgs += 1;
        let valid_raw = acks.iter().all(|a| valid_ack_id(a)) && mods.iter().all(|(a, n)| valid_ack_id(a) && *n >= 0);
        let acks_n: Vec<String> = acks.iter().map(|a| norm_ack(a)).collect();
        // an id that one and the same request both acknowledges and modifies is acknowledged:
        // the acknowledgement of a delivery that was outstanding when the request was made is final
        let (sub, mut si) = match self.streams.get(&call) {
            Some(st) => (st.sub.clone(), st.sub_inst),
            None => return,
        };
        // (only for a delivery that is outstanding now; an id that names no delivery yet - a
        // predictable id sent ahead of its lease - can meet a lease created between the two halves
        // of the message, so both halves stay in play)
        let known_lease = |a: &String| si.map(|i| self.subs[i].lease_by_ack.contains_key(a)).unwrap_or(false);
        let mods_n: Vec<(String, i32)> = mods.iter().map(|(a, n)| (norm_ack(a), *n)).filter(|(a, _)| !(acks_n.contains(a) && known_lease(a))).collect();
        let (acks, mods) = (&acks_n[..], &mods_n[..]);
        if si.is_none() {
            // the stream was opened while its subscription's create was still in flight
            si = self.cur_sub(&sub);
            if let (Some(i), Some(st)) = (si, self.streams.get_mut(&call)) {
                st.sub_inst = Some(i);
                self.subs[i].consumers.insert(call);
            }
        }
        let valid = valid_raw;
        if let Some(st) = self.streams.get_mut(&call) {
            st.ctrl_since_qp = true;
            if !valid {
                st.invalid_ctrl_sent = true;
            }
        }
        self.touch(&sub);
        if !valid {
            return;
        }
        let cur = self.cur_sub(&sub);
        if cur.is_none() || cur != si {
            return;
        }
        let now = self.now;
        let idx = self.idx;
        {
            // processed at some point before the next quiescent point
            let next_qp = (idx..self.tr.events.len()).find(|i| matches!(self.tr.events[*i].kind, EvKind::Qp { .. })).unwrap_or(usize::MAX);
            let si = cur.unwrap();
            self.subs[si].mutations.push((idx, next_qp, acks.to_vec(), mods.to_vec()));
        }
        {
            // same reasoning as for unary calls: ids nobody was given may name phantom leases
            let si = cur.unwrap();
            if self.subs[si].tainted_until != 0 {
                if acks.iter().any(|a| !self.subs[si].lease_by_ack.contains_key(a) && a.parse::<u64>().is_ok()) {
                    for (_, st) in self.subs[si].msgs.iter_mut() {
                        if matches!(st, Ms::MaybeLeased) {
                            *st = Ms::Maybe;
                        }
                    }
                }
                let ext = mods.iter().filter(|(a, n)| *n > 0 && !self.subs[si].lease_by_ack.contains_key(a)).map(|(_, n)| *n).max();
                if let Some(n) = ext {
                    let until = self.now + eff_secs(n) * SEC + SLACK + 1_000_000;
                    self.subs[si].tainted_until = self.subs[si].tainted_until.max(until);
                }
            }
        }
        let asnap = self.apply_ack_invoke(&sub, acks, None);
        let msnap = self.apply_modify_invoke(&sub, mods);
        let si = cur.unwrap();
        self.subs[si].pending_ctrl.push((idx, call, acks.to_vec(), mods.to_vec(), now, true));
        self.stream_snaps.insert(idx, (asnap, msnap));
    }

    fn on_qp(&mut self, stats: &[SubStat]) {
        self.rep.feat.qps += 1;
        let idx = self.idx;
        self.last_qp_idx = idx;
        // pending stream control messages have been processed by now (or the stream ended)
        for si in 0..self.subs.len() {
            let pend = std::mem::take(&mut self.subs[si].pending_ctrl);
            for (eidx, call, acks, _mods, t_send, _) in pend {
                let st = self.streams.get(&call);
                let alive = st.map(|s| s.ended.is_none() && !s.aborted).unwrap_or(false);
                let (asnap, msnap) = self.stream_snaps.remove(&eidx).unwrap_or_default();
                if alive {
                    self.apply_ack_return(&asnap, &acks);
                    self.apply_modify_return(&msnap, t_send, true);
                } else {
                    // the stream ended: whether this message was applied is not determined
                    self.apply_modify_return(&msnap, t_send, false);
                    for (s2, k, _, _) in &asnap {
                        if let Some(Ms::Leased { .. }) = self.subs[*s2].msgs.get(k) {
                            // stays maybe_acked
                        }
                    }
                }
            }
        }
        for st in self.streams.values_mut() {
            st.ctrl_since_qp = false;
        }
        self.time_rule();
        // a publish that is still in flight at a quiescent point (it is stuck) may have been
        // posted to some of its subscriptions already
        let stuck: Vec<CallId> = self.inflight_pubs.iter().cloned().collect();
        for p in stuck {
            if let Req::Publish { topic, mkeys } = &self.tr.calls[p].req {
                for s in self.subs.iter_mut() {
                    if s.topic_name == *topic && s.del_r.is_none() {
                        for k in mkeys {
                            s.msgs.entry(*k).or_insert(Ms::Maybe);
                        }
                    }
                }
            }
        }
        if std::env::var("VERIF_DEBUG_MODEL").is_ok() {
            for s in &self.subs {
                eprintln!("QP@{} t={} {} tainted_until={} msgs={:?}", self.idx, self.now, s.name, s.tainted_until, s.msgs);
            }
        }
        for st in stats {
            let si = match self.sub_definite(&st.name) {
                Some(i) => i,
                None => {
                    continue;
                }
            };
            if !st.present || st.stuck {
                if st.present && st.stuck {
                    // an actor that does not answer: C07's business (reported at the horizon)
                }
                continue;
            }
            // C06: a waiting consumer and a non-empty backlog at quiescence
            let waiting: Vec<CallId> = self.subs[si]
                .consumers
                .iter()
                .cloned()
                .filter(|c| match &self.tr.calls[*c].req {
                    Req::Pull { ri, .. } => !*ri,
                    Req::StreamOpen { .. } => self.streams.get(c).map(|s| s.open && s.ended.is_none() && !s.aborted).unwrap_or(false),
                    _ => false,
                })
                .collect();
            // consumers the harness holds at a stall point cannot take messages; at least one
            // of the waiting consumers must be a genuinely waiting one
            if waiting.len() > self.stalled_now && st.backlog > 0 && self.subs[si].del_i.is_none() {
                let unary = waiting.iter().any(|c| matches!(self.tr.calls[*c].req, Req::Pull { .. }));
                self.v(
                    "backlog_with_waiting_consumer",
                    if unary { &["C06", "C15"] } else { &["C06"] },
                    format!("at a quiescent point {} has {} message(s) in its backlog while {} consumer call(s) {:?} are waiting", st.name, st.backlog, waiting.len(), waiting),
                );
            }
            // the same judged by the model instead of the server's own counters: a message that is
            // certainly available (published, nacked or expired, and handed to nobody the harness
            // knows of) while a consumer waits - e.g. because a consumer nobody holds any more took it
            // (not at the first quiescent point after a consumer was abandoned: its request may
            // still have been in the mailbox and have taken what became available since)
            let abandoned_recently = self.subs[si].consumer_abort_since_qp;
            self.subs[si].consumer_abort_since_qp = false;
            if abandoned_recently {
                // whatever became available between the abandonment and this point may sit in a
                // lease that the abandoned request (still in the mailbox then) was given
                for (_, st) in self.subs[si].msgs.iter_mut() {
                    if matches!(st, Ms::Queued { .. }) {
                        *st = Ms::MaybeLeased;
                    }
                }
            }
            if waiting.len() > self.stalled_now && st.backlog == 0 && !abandoned_recently && self.subs[si].del_i.is_none() && self.subs[si].mutators.is_empty() && self.inflight_pubs.is_empty() {
                let avail = self.definitely_available(si);
                if let Some((k, why)) = avail.first() {
                    let id = self.mkey_to_id.get(k).cloned().unwrap_or_default();
                    let unary = waiting.iter().any(|c| matches!(self.tr.calls[*c].req, Req::Pull { .. }));
                    self.v(
                        "available_but_waiting_consumer_not_served",
                        if unary { &["C06", "C15"] } else { &["C06"] },
                        format!("at a quiescent point message {} is available on {} ({:?}) and was handed to no consumer, while {} consumer call(s) {:?} are waiting (server counters: backlog {}, outstanding {})", id, st.name, why, waiting.len(), waiting, st.backlog, st.outstanding),
                    );
                }
            }
            // stats against the model
            // (phantom leases of abandoned consumers are covered by the ranges of `counts`)
            let quiet = self.subs[si].mutators.is_empty();
            let only_waiting = self.subs[si].consumers.iter().all(|c| waiting.contains(c));
            if quiet && only_waiting {
                let (bmin, bmax, omin, omax, smin, smax) = self.counts(si);
                self.rep.feat.stats_compared += 1;
                let sum = st.backlog + st.outstanding;
                // once a consumer of this subscription has been abandoned, which of its messages sit
                // in leases nobody holds is only loosely known: compare the total only
                let loose = self.subs[si].ever_tainted;
                let split_bad = st.backlog < bmin || st.backlog > bmax || st.outstanding < omin || st.outstanding > omax;
                if (split_bad && !loose) || sum < smin || sum > smax {
                    self.v(
                        "stats_mismatch",
                        &["C01", "C02", "C03", "C04", "C05", "C16", "C17"],
                        format!(
                            "{}: backlog={} outstanding={} but the history implies backlog in [{},{}], outstanding in [{},{}], total in [{},{}]",
                            st.name, st.backlog, st.outstanding, bmin, bmax, omin, omax, smin, smax
                        ),
                    );
                }
            }
            let _ = idx;
        }
        // C12: consumers of deleted subscriptions must have been released
        for si in 0..self.subs.len() {
            let dr = match self.subs[si].del_r {
                Some(d) => d,
                None => continue,
            };
            if self.subs[si].c12_checked {
                continue;
            }
            // a consumer that the harness holds at a stall point (a client that does not read)
            // cannot notice anything: judge at the first quiescent point at which nothing is held
            if self.stalled_now > 0 {
                continue;
            }
            self.subs[si].c12_checked = true;
            let name = self.subs[si].name.clone();
            let cons: Vec<CallId> = self.subs[si].consumers.iter().cloned().collect();
            for c in cons {
                // a consumer call made while a create of the same name was in flight may have
                // found the new subscription of that name, which nobody deleted
                let inv = self.tr.calls[c].invoke_idx;
                let maybe_new_instance = self.tr.calls.iter().any(|o| {
                    matches!(&o.req, Req::CreateSub { name: cn, .. } if *cn == name) && o.invoke_idx < inv && o.done.as_ref().map(|d| d.0 > inv).unwrap_or(true) && o.aborted.map(|a| a.0 > inv).unwrap_or(true)
                });
                if maybe_new_instance {
                    continue;
                }
                match &self.tr.calls[c].req {
                    Req::Pull { .. } => {
                        // still pending at the first quiescent point after the delete returned
                        self.v("blocked_pull_not_released", &["C12"], format!("Pull (call {}) blocked on {} is still waiting at the first quiescent point after DeleteSubscription returned", c, name));
                    }
                    Req::StreamOpen { .. } => {
                        if let Some(st) = self.streams.get(&c) {
                            if st.open && st.ended.is_none() && !st.aborted {
                                self.v("stream_not_released", &["C12"], format!("StreamingPull (call {}) on {} is still open at the first quiescent point after DeleteSubscription returned (request side {})", c, name, if st.close_sent { "closed" } else { "open" }));
                            }
                        }
                    }
                    _ => {}
                }
            }
            let _ = dr;
        }
    }
}

/// `names` must be a permutation of the expected entries in which an entry whose creation
/// completed before another one's began comes first (creations that overlapped may appear in
/// either order: the order is fixed when the resource is inserted, somewhere inside the call).
pub(crate) fn same_order_modulo_overlap(spans: &[(usize, usize, String)], names: &[String]) -> bool {
    if spans.len() != names.len() {
        return false;
    }
    let mut pos: HashMap<&str, usize> = HashMap::new();
    for (i, n) in names.iter().enumerate() {
        if pos.insert(n.as_str(), i).is_some() {
            return false;
        }
    }
    for s in spans {
        if !pos.contains_key(s.2.as_str()) {
            return false;
        }
    }
    for a in spans {
        for b in spans {
            // a completed before b began => a must come first
            if a.1 < b.0 && pos[a.2.as_str()] > pos[b.2.as_str()] {
                return false;
            }
        }
    }
    true
}

fn short(a: &[(String, String)]) -> Vec<(String, String)> {
    a.iter().take(4).map(|(k, v)| (k.chars().take(12).collect(), v.chars().take(12).collect())).collect()
}
fn short_ids(a: &[String]) -> Vec<String> {
    a.iter().take(8).cloned().collect()
}

include!("model_driver.rs");

#[cfg(test)]
mod tests {
    #[test]
    fn eff() {
        assert_eq!(super::eff_secs(100000), 600);
    }
}
