//! Engine PURE: direct calls to public pure functions.
use crate::runner::*;
use deltio::paging::Paging;
use deltio::subscriptions::AckDeadline;
use serde_json::json;
use std::time::Duration;

/// C04: AckDeadline::new over every microsecond phase of one 100 ms rounding period.
pub fn ackdeadline_sweep(ctx: &WorkerCtx, out: &mut WorkerOut) {
    let base = tokio::time::Instant::now() + Duration::from_secs(5);
    let mut evals = 0u64;
    let mut phases = std::collections::BTreeSet::new();
    for k in 0..100_000u64 {
        if k % ctx.nworkers != ctx.widx {
            continue;
        }
        for sub_ns in [0u64, 1, 999] {
            let t = base + Duration::from_micros(k) + Duration::from_nanos(sub_ns);
            let r = AckDeadline::new(&t).time();
            evals += 1;
            // not earlier than t (up to the documented microsecond truncation), less than 100 ms later
            let early = t.checked_duration_since(r).map(|d| d.as_nanos()).unwrap_or(0);
            let late = r.checked_duration_since(t).map(|d| d.as_nanos()).unwrap_or(0);
            if early >= 1_000 || late >= 100_000_000 {
                out.failure = Some(Failure {
                    rule: "ackdeadline_rounding".into(),
                    detail: format!("AckDeadline::new(t) is {} ns before / {} ns after t (allowed: <1 us before, <100 ms after)", early, late),
                    engine: "pure_ackdeadline".into(),
                    input: json!({"engine":"pure_ackdeadline","offset_us":k,"sub_ns":sub_ns}),
                    trace: json!(null),
                });
                out.evaluations += evals;
                return;
            }
            phases.insert(late / 1_000_000);
        }
    }
    out.evaluations += evals;
    out.class(&format!("ackdeadline_sweep/distinct_forward_shifts_ms={}", phases.len()));
    out.notes.push(format!("AckDeadline::new swept over this worker's share of all 100000 microsecond phases x 3 sub-microsecond offsets ({} evaluations)", evals));
}

/// C13: the Paging arithmetic on its own.
pub fn paging_pure(ctx: &WorkerCtx, out: &mut WorkerOut) {
    if ctx.widx != 0 {
        return;
    }
    let ns: Vec<usize> = vec![0, 1, 2, 3, 19, 20, 21, 39, 40, 41, 999, 1000, 1001, 2100];
    let sizes: Vec<usize> = vec![0, 1, 2, 3, 19, 20, 21, 40, 999, 1000, 1001, 5000, usize::MAX];
    let mut evals = 0u64;
    for &n in &ns {
        let items: Vec<usize> = (0..n).collect();
        for &size in &sizes {
            evals += 1;
            let eff = if size == 0 { 20 } else if size > 1000 { 1000 } else { size };
            let mut paging = Paging::new(size, None);
            let mut all = Vec::new();
            let mut calls = 0;
            loop {
                calls += 1;
                let page: Vec<usize> = items.iter().skip(paging.to_skip()).take(paging.size()).cloned().collect();
                let bad = page.len() > eff;
                all.extend(page.iter().cloned());
                let next = paging.next_page_from_slice_result(&page);
                if bad || calls > n + 2 {
                    out.failure = Some(Failure {
                        rule: "paging_walk".into(),
                        detail: format!("n={} size={}: page of {} (effective size {}), {} calls", n, size, page.len(), eff, calls),
                        engine: "pure_paging".into(),
                        input: json!({"engine":"pure_paging","n":n,"size":size as u64}),
                        trace: json!(null),
                    });
                    out.evaluations += evals;
                    return;
                }
                if next.offset().is_none() {
                    break;
                }
                paging = next;
            }
            if all != items {
                out.failure = Some(Failure {
                    rule: "paging_walk".into(),
                    detail: format!("n={} size={}: walk yielded {} items", n, size, all.len()),
                    engine: "pure_paging".into(),
                    input: json!({"engine":"pure_paging","n":n,"size":size as u64}),
                    trace: json!(null),
                });
                out.evaluations += evals;
                return;
            }
            // arbitrary offsets
            for off in [0usize, 1, n.saturating_sub(1), n, n + 1, usize::MAX / 2, usize::MAX] {
                let p = Paging::new(size, Some(off));
                let page: Vec<usize> = items.iter().skip(p.to_skip()).take(p.size()).cloned().collect();
                evals += 1;
                let start = off.min(n);
                let want: Vec<usize> = items[start..(start + eff).min(n)].to_vec();
                if page != want {
                    out.failure = Some(Failure {
                        rule: "paging_offset".into(),
                        detail: format!("n={} size={} offset={}: got {} items", n, size, off, page.len()),
                        engine: "pure_paging".into(),
                        input: json!({"engine":"pure_paging","n":n,"size":size as u64,"offset":off as u64}),
                        trace: json!(null),
                    });
                    out.evaluations += evals;
                    return;
                }
                // must not overflow
                let _ = p.next_page_from_slice_result(&page);
            }
        }
    }
    out.evaluations += evals;
    out.class("paging_pure/walks_and_offsets");
}
