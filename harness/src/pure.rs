//! Engine PURE: direct calls to public pure functions.
use crate::runner::*;
use deltio::paging::Paging;
use deltio::subscriptions::AckDeadline;
use serde_json::json;
use std::time::Duration;

/// C04: AckDeadline::new over every microsecond phase of one 100 ms rounding period.
pub fn ackdeadline_sweep(ctx: &WorkerCtx, out: &mut WorkerOut) {
    let base = tokio::time::Instant::now() + Duration::from_secs(5);
    let mut evals = 0u64;
    let mut phases = std::collections::BTreeSet::new();
    for k in 0..100_000u64 {
        if k % ctx.nworkers != ctx.widx {
            continue;
        }
        for sub_ns in [0u64, 1, 999] {
            let t = base + Duration::from_micros(k) + Duration::from_nanos(sub_ns);
            let r = AckDeadline::new(&t).time();
            evals += 1;
            // not earlier than t (up to the documented microsecond truncation), less than 100 ms later
            let early = t.checked_duration_since(r).map(|d| d.as_nanos()).unwrap_or(0);
            let late = r.checked_duration_since(t).map(|d| d.as_nanos()).unwrap_or(0);
            if early >= 1_000 || late >= 100_000_000 {
                out.failure = Some(Failure {
                    rule: "ackdeadline_rounding".into(),
                    detail: format!("AckDeadline::new(t) is {} ns before / {} ns after t (allowed: <1 us before, <100 ms after)", early, late),
                    engine: "pure_ackdeadline".into(),
                    input: json!({"engine":"pure_ackdeadline","offset_us":k,"sub_ns":sub_ns}),
                    trace: json!(null),
                });
                out.evaluations += evals;
                return;
            }
            phases.insert(late / 1_000_000);
        }
    }
    out.evaluations += evals;
    out.class(&format!("ackdeadline_sweep/distinct_forward_shifts_ms={}", phases.len()));
    out.notes.push(format!("AckDeadline::new swept over this worker's share of all 100000 microsecond phases x 3 sub-microsecond offsets ({} evaluations)", evals));
}

/// C13: the Paging arithmetic on its own.
pub fn paging_pure(ctx: &WorkerCtx, out: &mut WorkerOut) {
    if ctx.widx != 0 {
        return;
    }
    let ns: Vec<usize> = vec![0, 1, 2, 3, 19, 20, 21, 39, 40, 41, 999, 1000, 1001, 2100];
    let sizes: Vec<usize> = vec![0, 1, 2, 3, 19, 20, 21, 40, 999, 1000, 1001, 5000, usize::MAX];
    let mut evals = 0u64;
    for &n in &ns {
        let items: Vec<usize> = (0..n).collect();
        for &size in &sizes {
            evals += 1;
            let eff = if size == 0 { 20 } else if size > 1000 { 1000 } else { size };
            let mut paging = Paging::new(size, None);
            let mut all = Vec::new();
            let mut calls = 0;
            loop {
                calls += 1;
                let page: Vec<usize> = items.iter().skip(paging.to_skip()).take(paging.size()).cloned().collect();
                let bad = page.len() > eff;
                all.extend(page.iter().cloned());
                let next = paging.next_page_from_slice_result(&page);
                if bad || calls > n + 2 {
                    out.failure = Some(Failure {
                        rule: "paging_walk".into(),
                        detail: format!("n={} size={}: page of {} (effective size {}), {} calls", n, size, page.len(), eff, calls),
                        engine: "pure_paging".into(),
                        input: json!({"engine":"pure_paging","n":n,"size":size as u64}),
                        trace: json!(null),
                    });
                    out.evaluations += evals;
                    return;
                }
                if next.offset().is_none() {
                    break;
                }
                paging = next;
            }
            if all != items {
                out.failure = Some(Failure {
                    rule: "paging_walk".into(),
                    detail: format!("n={} size={}: walk yielded {} items", n, size, all.len()),
                    engine: "pure_paging".into(),
                    input: json!({"engine":"pure_paging","n":n,"size":size as u64}),
                    trace: json!(null),
                });
                out.evaluations += evals;
                return;
            }
            // arbitrary offsets
            for off in [0usize, 1, n.saturating_sub(1), n, n + 1, usize::MAX / 2, usize::MAX] {
                let p = Paging::new(size, Some(off));
                let page: Vec<usize> = items.iter().skip(p.to_skip()).take(p.size()).cloned().collect();
                evals += 1;
                let start = off.min(n);
                let want: Vec<usize> = items[start..(start + eff).min(n)].to_vec();
                if page != want {
                    out.failure = Some(Failure {
                        rule: "paging_offset".into(),
                        detail: format!("n={} size={} offset={}: got {} items", n, size, off, page.len()),
                        engine: "pure_paging".into(),
                        input: json!({"engine":"pure_paging","n":n,"size":size as u64,"offset":off as u64}),
                        trace: json!(null),
                    });
                    out.evaluations += evals;
                    return;
                }
                // must not overflow
                let _ = p.next_page_from_slice_result(&page);
            }
        }
    }
    out.evaluations += evals;
    out.class("paging_pure/walks_and_offsets");
}

// ---------------------------------------------------------------------------------------
// C18: canonical resource names

use deltio::subscriptions::SubscriptionName;
use deltio::topics::TopicName;
use std::collections::HashMap;

/// Reference grammar, written independently of the implementation:
/// `projects/` + project (non-empty, no slash) + `/<segment>/` + id (non-empty).
pub fn ref_parse<'a>(s: &'a str, segment: &str) -> Option<(&'a str, &'a str)> {
    let rest = s.strip_prefix("projects/")?;
    let (project, rest) = rest.split_once('/')?;
    if project.is_empty() {
        return None;
    }
    let rest = rest.strip_prefix(segment)?;
    let id = rest.strip_prefix('/')?;
    if id.is_empty() {
        return None;
    }
    Some((project, id))
}

pub struct NameOracle {
    topics: HashMap<TopicName, String>,
    subs: HashMap<SubscriptionName, String>,
    pub accepted: u64,
    pub nontrivial: u64,
}

impl Default for NameOracle {
    fn default() -> Self {
        Self::new()
    }
}

impl NameOracle {
    pub fn new() -> Self {
        NameOracle { topics: HashMap::new(), subs: HashMap::new(), accepted: 0, nontrivial: 0 }
    }

    /// Checks one string against both parsers. Returns a violation description.
    pub fn check(&mut self, s: &str) -> Option<(String, String)> {
        if s.starts_with("projects/") && s.matches('/').count() >= 3 {
            self.nontrivial += 1;
        }
        if let Some(t) = TopicName::try_parse(s) {
            self.accepted += 1;
            // (1) soundness
            if ref_parse(s, "topics").is_none() {
                return Some(("accepted_outside_grammar".into(), format!("TopicName::try_parse accepts {:?}, which is not projects/<project>/topics/<id>", s)));
            }
            // (2) echo
            let c = t.to_string();
            match TopicName::try_parse(&c) {
                None => return Some(("echo_rejected".into(), format!("{:?} is accepted as a topic name, but its canonical form {:?} is rejected", s, c))),
                Some(t2) if t2 != t => return Some(("echo_denotes_other".into(), format!("{:?} echoes as {:?}, which parses to a different topic name", s, c))),
                _ => {}
            }
            // (3) injectivity
            if let Some(prev) = self.topics.get(&t) {
                if prev != s {
                    return Some(("not_injective".into(), format!("the different topic names {:?} and {:?} denote the same resource ({})", prev, s, c)));
                }
            } else if self.topics.len() < 400_000 {
                self.topics.insert(t, s.to_string());
            }
        }
        if let Some(t) = SubscriptionName::try_parse(s) {
            self.accepted += 1;
            if ref_parse(s, "subscriptions").is_none() {
                return Some(("accepted_outside_grammar".into(), format!("SubscriptionName::try_parse accepts {:?}, which is not projects/<project>/subscriptions/<id>", s)));
            }
            let c = t.to_string();
            match SubscriptionName::try_parse(&c) {
                None => return Some(("echo_rejected".into(), format!("{:?} is accepted as a subscription name, but its canonical form {:?} is rejected", s, c))),
                Some(t2) if t2 != t => return Some(("echo_denotes_other".into(), format!("{:?} echoes as {:?}, which parses to a different subscription name", s, c))),
                _ => {}
            }
            if let Some(prev) = self.subs.get(&t) {
                if prev != s {
                    return Some(("not_injective".into(), format!("the different subscription names {:?} and {:?} denote the same resource ({})", prev, s, c)));
                }
            } else if self.subs.len() < 400_000 {
                self.subs.insert(t, s.to_string());
            }
        }
        None
    }
}

const NAME_TOKENS: &[&str] = &["a", "A", "/", "é", "topics", "subscriptions", "projects", "-", "_deleted_topic_"];
const RAW_ALPHABET: &[&str] = &["p", "r", "/", "a", "é", "t"];

fn name_failure(rule: String, detail: String, s: &str) -> Failure {
    Failure { rule, detail, engine: "pure_names".into(), input: json!({"engine":"pure_names","strings":[s]}), trace: json!(null) }
}

pub fn names_check(ctx: &WorkerCtx, out: &mut WorkerOut) {
    use proptest::prelude::*;
    use proptest::test_runner::{Config, RngSeed, TestCaseError, TestError, TestRunner};
    let max_tokens = match ctx.tier {
        Tier::Quick => 5usize,
        Tier::Thorough => 7usize,
    };
    // (a) exhaustive enumeration around the two fixed segments; every worker takes the
    // sequences whose first token index matches its shard, so that the injectivity table of
    // a worker sees complete neighbourhoods
    let mut oracle = NameOracle::new();
    let mut evals = 0u64;
    let n = NAME_TOKENS.len() as u64;
    let mut shard = 0u64;
    for len in 0..=max_tokens {
        let total = n.pow(len as u32);
        for idx in 0..total {
            shard += 1;
            let mut s = String::from("projects/");
            let mut k = idx;
            for _ in 0..len {
                s.push_str(NAME_TOKENS[(k % n) as usize]);
                k /= n;
            }
            // shard by a normalised form (case folded, repeated and trailing slashes dropped), so
            // that strings which a lenient comparison could identify meet in one worker's
            // injectivity table
            let mut norm = String::with_capacity(s.len());
            for ch in s.to_lowercase().chars() {
                if ch == '/' && norm.ends_with('/') {
                    continue;
                }
                norm.push(ch);
            }
            let key = crate::trace::fnv(norm.trim_end_matches('/').as_bytes());
            if key % ctx.nworkers != ctx.widx {
                continue;
            }
            evals += 1;
            if let Some((rule, detail)) = oracle.check(&s) {
                if let Some(f) = match_finding(&ctx.findings, &ctx.prop, &rule, &detail) {
                    *out.known_hits.entry(format!("{}: {}", f.rule, f.description)).or_insert(0) += 1;
                    continue;
                }
                out.evaluations += evals;
                out.failure = Some(name_failure(rule, detail, &s));
                return;
            }
            if out.samples.len() < 3 && s.matches('/').count() >= 3 && TopicName::try_parse(&s).is_some() {
                out.samples.push(json!(s));
            }
        }
    }
    let _ = shard;
    // raw short strings (prefix failures)
    if ctx.widx == 0 {
        let m = RAW_ALPHABET.len() as u64;
        for len in 0..=5usize {
            for idx in 0..m.pow(len as u32) {
                let mut s = String::new();
                let mut k = idx;
                for _ in 0..len {
                    s.push_str(RAW_ALPHABET[(k % m) as usize]);
                    k /= m;
                }
                evals += 1;
                if let Some((rule, detail)) = oracle.check(&s) {
                    out.evaluations += evals;
                    out.failure = Some(name_failure(rule, detail, &s));
                    return;
                }
            }
        }
    }
    out.exhaustive = Some(true);
    out.notes.push(format!(
        "enumerated every string projects/ + up to {} tokens from {:?} (this worker's shard) and every string of up to 5 symbols from {:?}",
        max_tokens, NAME_TOKENS, RAW_ALPHABET
    ));
    // (b) random: grammar-valid names, near misses, arbitrary UTF-8
    let cases = ctx.share(match ctx.tier {
        Tier::Quick => 200_000,
        Tier::Thorough => 5_000_000,
    });
    let seg = prop_oneof![4 => Just("topics".to_string()), 4 => Just("subscriptions".to_string()), 1 => "[a-z]{1,13}", 1 => Just("topic".to_string()), 1 => Just("Topics".to_string())];
    let idpart = prop_oneof![4 => "[A-Za-z0-9._~%+-]{1,12}", 1 => "\\PC{1,6}", 1 => "[a-z/]{1,8}", 1 => Just(String::new())];
    let valid = (idpart.clone(), seg, idpart).prop_map(|(p, s, i)| format!("projects/{}/{}/{}", p, s, i));
    let mutated = (valid.clone(), 0usize..6, any::<u16>(), "\\PC{0,2}").prop_map(|(s, kind, pos, ins)| {
        let chars: Vec<char> = s.chars().collect();
        let p = if chars.is_empty() { 0 } else { pos as usize % chars.len() };
        let mut c = chars.clone();
        match kind {
            0 => {
                if !c.is_empty() {
                    c.remove(p);
                }
            }
            1 => {
                if !c.is_empty() {
                    let x = c[p];
                    c.insert(p, x);
                }
            }
            2 => {
                if c.len() >= 2 {
                    let q = (p + 1) % c.len();
                    c.swap(p, q);
                }
            }
            3 => {
                for ch in ins.chars() {
                    c.insert(p, ch);
                }
            }
            4 => {
                c.push('/');
                if pos % 2 == 0 {
                    c.push('/');
                }
            }
            _ => {
                c.insert(p, '/');
            }
        }
        c.into_iter().collect::<String>()
    });
    let any_str = prop_oneof![5 => valid, 5 => mutated, 1 => "\\PC{0,40}", 1 => "projects/\\PC{0,30}"];
    let pair = (any_str.clone(), any_str);
    let mut runner = TestRunner::new(Config { cases: cases as u32, failure_persistence: None, rng_seed: RngSeed::Fixed(ctx.stage_seed("names_random")), max_shrink_iters: 2000, ..Config::default() });
    let cell = std::cell::RefCell::new((oracle, 0u64, false, Vec::<serde_json::Value>::new()));
    let findings = ctx.findings.clone();
    let prop = ctx.prop.clone();
    let known = std::cell::RefCell::new(std::collections::BTreeMap::<String, u64>::new());
    let result = runner.run(&pair, |(a, b)| {
        let mut g = cell.borrow_mut();
        // fresh injectivity tables per pair would miss nothing here: the pair itself is the
        // generated "for all pairs" object, the shared table only adds more pairs
        let mut local = NameOracle::new();
        for s in [&a, &b] {
            if !g.2 {
                g.1 += 1;
            }
            let r1 = local.check(s);
            let r2 = if g.2 { None } else { g.0.check(s) };
            if let Some((rule, detail)) = r1.or(r2) {
                if let Some(f) = match_finding(&findings, &prop, &rule, &detail) {
                    *known.borrow_mut().entry(format!("{}: {}", f.rule, f.description)).or_insert(0) += 1;
                    continue;
                }
                g.2 = true;
                return Err(TestCaseError::fail(format!("{}||{}", rule, detail)));
            }
        }
        if g.3.len() < 3 && a.matches('/').count() >= 3 {
            g.3.push(json!([a, b]));
        }
        Ok(())
    });
    let (oracle, n_random, _, samples) = cell.into_inner();
    evals += n_random;
    for s in samples {
        if out.samples.len() < 6 {
            out.samples.push(s);
        }
    }
    for (k, v) in known.into_inner() {
        *out.known_hits.entry(k).or_insert(0) += v;
    }
    out.evaluations += evals;
    // distinct non-trivial strings are counted, not stored: report through fingerprints of a counter range
    let nt = oracle.nontrivial;
    out.fingerprints.extend((0..nt.min(2_000_000)).map(|i| i.wrapping_mul(0x9E37_79B9_7F4A_7C15) ^ ctx.widx.rotate_left(48)));
    out.class(&format!("accepted_by_a_parser={}", oracle.accepted));
    if let Err(TestError::Fail(reason, (a, b))) = result {
        let msg = reason.message().to_string();
        let (rule, detail) = msg.split_once("||").map(|(x, y)| (x.to_string(), y.to_string())).unwrap_or((msg.clone(), msg.clone()));
        out.failure = Some(Failure { rule, detail, engine: "pure_names".into(), input: json!({"engine":"pure_names","strings":[a, b]}), trace: json!(null) });
    }
}

pub fn replay_names(input: &serde_json::Value) -> Vec<crate::model::Violation> {
    let mut o = NameOracle::new();
    let mut v = Vec::new();
    if let Some(arr) = input.get("strings").and_then(|s| s.as_array()) {
        for s in arr {
            if let Some(s) = s.as_str() {
                if let Some((rule, detail)) = o.check(s) {
                    v.push(crate::model::Violation { rule, props: vec!["C18".into()], at: 0, detail });
                }
            }
        }
    }
    v
}
